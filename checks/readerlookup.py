"""C14 / C19 (second half): FileReader, ZipReader and the borrowers built on them, on materialised trees and
archives, against specs/ReaderLookup.tla; URL -> reader dispatch against specs/UrlDispatch.tla."""
import json
import os
import random
import shutil
import time
import zipfile
import io

from harness import tlc

CONTENT = {
    1: b'FIRST-MIB DEFINITIONS ::= BEGIN\nEND\n',
    2: b'SECOND-MIB DEFINITIONS ::= BEGIN\r\n-- latin1 \xe9\xff bytes and crlf\r\nEND\r\n',
    3: u'THIRD-MIB DEFINITIONS ::= BEGIN -- über ☃\nEND\n'.encode('utf-8'),
    9: b'placeholder',
}
BASE_T = 1500000000   # even
CFG = 'CONSTANTS\n  Starts <- %s\n  EntryPool <- EntriesOf\n  MaxEntries = %d\nINIT %s\nNEXT %s\n'


def S(seq):
    return ''.join(seq)


def decoded(cid):
    return CONTENT[cid].decode('utf-8', 'ignore')


def entry_time(k):
    return BASE_T + 2 * (k + 1)


def build_dir(root, entries):
    shutil.rmtree(root, ignore_errors=True)
    lv = {1: root, 2: os.path.join(root, 'sub'), 3: os.path.join(root, 'sub', 'deep')}
    os.makedirs(lv[3])
    for k, e in enumerate(entries):
        p = os.path.join(lv[e['level']], S(e['name']))
        if os.path.exists(p):
            return False           # two entries collapse to one path (file vs dir of the same name): skip scenario
        if e['kind'] == 'dir':
            os.makedirs(p)
        else:
            with open(p, 'wb') as fh:
                fh.write(CONTENT[e['cid']])
            os.utime(p, (entry_time(k), entry_time(k)))
    return True


def build_zip(path, entries):
    inner = io.BytesIO()
    has_inner = False
    with zipfile.ZipFile(inner, 'w') as zi:
        for k, e in enumerate(entries):
            if e['level'] == 3:
                has_inner = True
                dt = time.localtime(entry_time(k))[:6]
                if e['kind'] == 'dir':
                    zi.writestr(zipfile.ZipInfo(S(e['name']) + '/placeholder.bin', dt), CONTENT[9])
                else:
                    zi.writestr(zipfile.ZipInfo(S(e['name']), dt), CONTENT[e['cid']])
    names = set()
    with zipfile.ZipFile(path, 'w') as z:
        for k, e in enumerate(entries):
            if e['level'] == 3:
                continue
            dt = time.localtime(entry_time(k))[:6]
            prefix = '' if e['level'] == 1 else 'folder/'
            nm = prefix + S(e['name']) + ('/placeholder.bin' if e['kind'] == 'dir' else '')
            if nm in names:
                return False
            names.add(nm)
            z.writestr(zipfile.ZipInfo(nm, dt), CONTENT[9] if e['kind'] == 'dir' else CONTENT[e['cid']])
        if has_inner:
            z.writestr(zipfile.ZipInfo('folder/inner.zip', time.localtime(BASE_T)[:6]), inner.getvalue())
        z.writestr(zipfile.ZipInfo('unrelated/README', time.localtime(BASE_T)[:6]), b'nothing to see')
    return True


def observe(call, sc, entries):
    from pysmi import error
    try:
        info, text = call()
    except error.PySmiReaderFileNotFoundError:
        return {'kind': 'notfound', 'name': [], 'cid': 0, 'mt': 0}
    except error.PySmiError as exc:
        return {'kind': 'exc', 'name': [], 'cid': 0, 'mt': 0, 'cls': type(exc).__name__, 'pkg': True}
    except Exception as exc:
        return {'kind': 'exc', 'name': [], 'cid': 0, 'mt': 0, 'cls': type(exc).__name__, 'pkg': False}
    cid = 0
    for c in (1, 2, 3):
        if text == decoded(c):
            cid = c
    mt = 0
    for k, e in enumerate(entries):
        # identify WHICH entry's time stamp came back: entries are told apart by (name, content, time)
        if S(e['name']) == info.file and e['kind'] == 'file' and e['cid'] == cid and int(info.mtime) == entry_time(k):
            mt = k + 1
    return {'kind': 'data', 'name': list(info.file), 'cid': cid, 'mt': mt, 'alias': info.name, 'path': info.path}


def run_scenario(sc, scratch, container):
    """container: 'dir' | 'zip'.  Returns (entries with mt identities, result) or None when not expressible."""
    from pysmi.reader import FileReader, ZipReader
    from pysmi.borrower import AnyFileBorrower, PyFileBorrower
    entries = [dict(e) for e in sc['entries']]
    for k, e in enumerate(entries):
        e['mt'] = (k + 1) if e['kind'] == 'file' else 0
    o = sc['opts']
    ropts = dict(originalMatching=o['orig'], uppercaseMatching=o['up'], lowcaseMatching=o['low'], fuzzyMatching=o['fuzzy'])
    name = S(sc['req'])
    if container == 'dir':
        root = os.path.join(scratch, 'tree')
        if not build_dir(root, entries):
            return None
        if sc['index']:
            with open(os.path.join(root, '.index'), 'w') as fh:
                fh.write('OTHER-MIB other.txt\n%s %s\n' % (name, S(sc['index'])))
        rd = FileReader(root, recursive=sc['recursive']).setOptions(**ropts)
    else:
        if sc['index'] or not sc['recursive']:
            return None          # ZipReader has neither an index nor a non-recursive mode
        zp = os.path.join(scratch, 'src.zip')
        if not build_zip(zp, entries):
            return None
        rd = ZipReader(zp).setOptions(**ropts)
    if sc['exts'] == 'reader':
        call = lambda: rd.getData(name)
    elif sc['exts'] == 'py':
        call = lambda: PyFileBorrower(rd, genTexts=False).getData(name, genTexts=False)
    else:
        call = lambda: AnyFileBorrower(rd, genTexts=False).setOptions(exts=['.json']).getData(name, genTexts=False)
    res = observe(call, sc, entries)
    return entries, res


def describe(sc, container, res):
    return '%s request=%s opts=%s exts=%s index=%s entries=[%s] -> %s' % (
        container, S(sc['req']), ''.join(k[0] for k in ('orig', 'up', 'low', 'fuzzy') if sc['opts'][k]) or 'none', sc['exts'],
        S(sc['index']) or '-', ', '.join('L%d:%s%s' % (e['level'], S(e['name']), '/' if e['kind'] == 'dir' else '') for e in sc['entries']),
        res['kind'] if res['kind'] != 'data' else 'file %s' % S(res['name']) + ('' if res['cid'] else ' GARBLED-CONTENT') + ('' if res['mt'] else ' WRONG-MTIME'))


def run(out, prop, tier, seed, **kw):
    rnd = random.Random(seed)
    scratch = tlc.mkscratch('rl-')
    formulas = ['RightFile', 'NotFoundExactly', 'NeverUnrelated', 'OnlyPackageErrors']
    for label, starts in (('A-options', 'StartsA'), ('B-index-borrowers', 'StartsB')):
        if prop == 'C19' and label.startswith('A'):
            continue
        cfg = CFG % (starts, 2, 'Init', 'Next') + 'INVARIANT P_RightFile\nINVARIANT P_NotFoundExactly\nINVARIANT P_NeverUnrelated\nINVARIANT ExportAll\n'
        res = tlc.run('MC_ReaderLookup', 'g.cfg', files={'g.cfg': cfg}, timeout=3000)
        out.add_tlc(res, 'ReaderLookup/' + label)
        scs, seen = [], set()
        for e in res.exports:
            key = json.dumps(e['sc'], sort_keys=True)
            if key not in seen:
                seen.add(key)
                scs.append(e['sc'])
        if prop == 'C19':
            scs = [s for s in scs if s['exts'] != 'reader']
        out.extra.setdefault('scenarios_exported', {})[label] = len(scs)
        cap = 2500 if tier == 'quick' else 10 ** 9
        if len(scs) > cap:
            scs = rnd.sample(scs, cap)
        traces, raw = [], {}
        for i, sc in enumerate(scs):
            for container in ('dir', 'zip'):
                r = run_scenario(sc, scratch, container)
                if r is None:
                    continue
                entries, obs = r
                tid = '%s-%d-%s' % (label[0], i, container)
                sc2 = dict(sc)
                sc2['entries'] = entries
                traces.append({'id': tid, 'sc': sc2, 'res': {'kind': obs['kind'], 'name': obs['name'], 'cid': obs['cid'], 'mt': obs['mt']}})
                raw[tid] = (sc, container, obs)
                out.evaluations += 1
                if sc['entries']:
                    out.distinct.add(tid.rsplit('-', 1)[0])
        path = os.path.join(scratch, 'traces.json')
        with open(path, 'w') as fh:
            json.dump(traces, fh)
        vres = tlc.run('ReaderLookupTrace', 't.cfg', files={'t.cfg': CFG % ('StartsA', 2, 'TInit', 'TNext') + 'INVARIANT Report\n',
                                                           'ReaderLookupTrace.tla': open(os.path.join(tlc.SPECS, 'ReaderLookupTrace.tla')).read().replace(
                                                               'VARIABLE tid', 'StartsA == {}\nEntriesOf(n) == {}\nVARIABLE tid')},
                       env={'TRACE_FILE': path}, workers=8, timeout=3000)
        out.add_tlc(vres, 'ReaderLookupTrace/' + label)
        verdicts = {v['id']: v for v in vres.exports}
        for t in traces:
            v = verdicts.get(t['id'])
            if v is None:
                out.machinery_errors.append('no verdict for %s' % t['id'])
                continue
            out.traces += 1
            sc, container, obs = raw[t['id']]
            what = describe(sc, container, obs)
            if obs['kind'] == 'exc':
                what += ' (%s)' % obs.get('cls')
            if out.traces % 811 == 1:
                out.sample({'case': what, 'matching_entries_in_model': v['nmatches'], 'failed': v['failed']})
            bad = [f for f in v['failed'] if f in formulas]
            if bad:
                cls = classify(sc, container, obs)
                for f in bad:
                    out.violation('formula=%s;%s' % (f, cls), '%s fails: %s' % (f, what),
                                  {'kind': 'readerlookup', 'sc': sc, 'container': container, 'observed': obs})
    if prop == 'C14':
        url_dispatch(out)
        reuse_probe(out, scratch)
    out.assumptions += ['trees are built on disk / with zipfile by the harness (levels: top, folder, folder-in-folder or archive-in-archive)',
                        'returned text is identified with an entry by (name, decoded content, time stamp)',
                        'HTTP/FTP readers are only constructed, never contacted']


def reuse_probe(out, scratch):
    """Readers keep no state between requests (ReaderLookup.tla: the answer is a function of the request and the tree):
    ONE reader object is asked for several modules that live in sibling containers of the same name at nesting depth 2
    (pa.zip/inner.zip/.., pb.zip/inner.zip/.. ; dir/pa/inner/.., dir/pb/inner/..), in both orders, and each answer is
    compared with the answer of a fresh reader."""
    import io
    import zipfile
    from pysmi.reader import FileReader, ZipReader
    from pysmi import error

    def inner(names):
        b = io.BytesIO()
        with zipfile.ZipFile(b, 'w') as z:
            for n in names:
                z.writestr(n + '.txt', 'text of %s\n' % n)
        return b.getvalue()

    def outer(member, names):
        b = io.BytesIO()
        with zipfile.ZipFile(b, 'w') as z:
            z.writestr(member, inner(names))
        return b.getvalue()
    zp = os.path.join(scratch, 'reuse.zip')
    with zipfile.ZipFile(zp, 'w') as z:
        z.writestr('pa.zip', outer('inner.zip', ['FIRST-MIB']))
        z.writestr('pb.zip', outer('inner.zip', ['SECOND-MIB']))
        z.writestr('pc.zip', outer('sub/inner.zip', ['THIRD-MIB']))
        z.writestr('TOP-MIB.txt', 'text of TOP-MIB\n')
    root = os.path.join(scratch, 'reuse-dir')
    for d, n in (('pa/inner', 'FIRST-MIB'), ('pb/inner', 'SECOND-MIB'), ('pc/sub/inner', 'THIRD-MIB'), ('', 'TOP-MIB')):
        os.makedirs(os.path.join(root, d), exist_ok=True)
        with open(os.path.join(root, d, n + '.txt'), 'w') as fh:
            fh.write('text of %s\n' % n)

    def ask(rd, n):
        try:
            info, data = rd.getData(n)
            return data.strip() if isinstance(data, str) else data.decode().strip()
        except error.PySmiReaderFileNotFoundError:
            return 'NOT-FOUND'
        except error.PySmiError as exc:
            return 'ERROR %s' % type(exc).__name__
    names = ['FIRST-MIB', 'SECOND-MIB', 'THIRD-MIB', 'TOP-MIB', 'ABSENT-MIB']
    for kind, make in (('zip', lambda: ZipReader(zp)), ('dir', lambda: FileReader(root))):
        fresh = {n: ask(make(), n) for n in names}
        for n in names[:4]:
            if fresh[n] != 'text of ' + n:
                out.violation('formula=RightFile;reuse-probe-fresh', '%s reader: a fresh reader asked for %s answers %r' % (kind, n, fresh[n]),
                              {'kind': 'readerlookup-reuse', 'container': kind, 'order': [n], 'answers': [fresh[n]]})
        for order in (names, names[::-1], ['SECOND-MIB', 'FIRST-MIB', 'SECOND-MIB', 'THIRD-MIB', 'FIRST-MIB']):
            rd = make()
            got = [ask(rd, n) for n in order]
            out.evaluations += 1
            bad = [(n, g) for n, g in zip(order, got) if g != fresh[n]]
            if bad:
                out.violation('formula=RightFile;reader-reused', '%s reader asked for %s in turn: %s answered %r, a fresh reader answers %r' % (
                    kind, order, bad[0][0], bad[0][1], fresh[bad[0][0]]), {'kind': 'readerlookup-reuse', 'container': kind, 'order': order, 'answers': got})


def classify(sc, container, obs):
    """Witness classes used in signatures (see known_findings.json)."""
    name = S(sc['req'])
    o = sc['opts']
    if obs['kind'] == 'exc' and obs.get('cls') == 'IndexError' and not (o['orig'] or o['up'] or o['low']):
        return 'no-case-option-indexerror'
    if container == 'zip' and any(e['level'] == 3 for e in sc['entries']):
        return 'nested-zip'
    if '-mib' in name.lower() and not name.lower().endswith('-mib'):
        return 'mib-not-at-end'
    if not o['low'] and o['fuzzy']:
        return 'fuzzy-without-lowercase'
    return 'other'


# ---------------------------------------------------------------- URL dispatch
def url_dispatch(out):
    from pysmi.reader.url import getReadersFromUrls
    from pysmi import error
    res = tlc.run('UrlDispatch', 'u.cfg', files={'u.cfg': 'INIT Init\nNEXT Next\nINVARIANT Export\n'})
    out.add_tlc(res, 'UrlDispatch')
    rows = res.exports
    traces = []
    for i, r in enumerate(rows):
        url = r['url']
        try:
            rd = getReadersFromUrls(url)[0]
            kind = type(rd).__name__
        except error.PySmiError:
            kind = 'PySmiError'
        except Exception as exc:
            kind = 'exc:' + type(exc).__name__
        out.evaluations += 1
        out.traces += 1
        if kind != r['expect']:
            out.violation('url;%s;%s' % (r['scheme'], r['ext']), 'URL %s gives %s, the scheme/extension denote %s' % (url, kind, r['expect']),
                          {'kind': 'url', 'url': url, 'expected': r['expect'], 'got': kind})
        elif i % 7 == 0:
            out.sample({'url': url, 'reader': kind})


def replay(path):
    with open(path) as fh:
        rp = json.load(fh)['replay']
    if rp.get('kind') == 'readerlookup-reuse':
        print(json.dumps(rp, indent=1))
        return
    if rp['kind'] == 'url':
        from pysmi.reader.url import getReadersFromUrls
        print(rp['url'], '->', [type(r).__name__ for r in getReadersFromUrls(rp['url'])], 'expected', rp['expected'])
        return
    r = run_scenario(rp['sc'], tlc.mkscratch('rl-'), rp['container'])
    print(describe(rp['sc'], rp['container'], r[1]), r[1])
