"""C12: results depend only on the input - histories over one instance vs fresh instances; hash seeds."""
import json
import os
import random
import re
import subprocess
import sys

from harness import tlc, mibs


def M(name, body, imp=''):
    return '%s DEFINITIONS ::= BEGIN\n%s%s\nEND\n' % (name, imp, body)


MI = ('%s MODULE-IDENTITY LAST-UPDATED "200001100000Z" ORGANIZATION "o" CONTACT-INFO "c" DESCRIPTION "d"\n'
      ' REVISION "%s" DESCRIPTION "r" ::= { enterprises %d }')
TABLE = ('t OBJECT-TYPE SYNTAX SEQUENCE OF E MAX-ACCESS not-accessible STATUS current DESCRIPTION "d" ::= { enterprises 9 }\n'
         'e OBJECT-TYPE SYNTAX E MAX-ACCESS not-accessible STATUS current DESCRIPTION "d" INDEX { c } ::= { t 1 }\n'
         'E ::= SEQUENCE { c Integer32, d DisplayString }\n'
         'c OBJECT-TYPE SYNTAX Integer32 (1..10) MAX-ACCESS not-accessible STATUS current DESCRIPTION "d" ::= { e 1 }\n'
         'd OBJECT-TYPE SYNTAX DisplayString MAX-ACCESS read-only STATUS current DESCRIPTION "d" DEFVAL { "x" } ::= { e 2 }')
IMP = 'IMPORTS MODULE-IDENTITY, OBJECT-TYPE, NOTIFICATION-TYPE, enterprises, Integer32, Counter32 FROM SNMPv2-SMI\n DisplayString, TruthValue, RowStatus FROM SNMPv2-TC;\n'

# name -> (module name to request, text).  A mix of valid and invalid inputs, with and without revisions / imports.
INPUTS = [
    ('rev', 'REV-MIB', M('REV-MIB', MI % ('revMib', '200001100000Z', 71) + '\n' + TABLE.replace('enterprises 9', 'revMib 9'), IMP)),
    ('rev2', 'REVB-MIB', M('REVB-MIB', MI % ('revbMib', '199505050000Z', 72), IMP)),
    ('norev', 'NOREV-MIB', M('NOREV-MIB', 'x OBJECT IDENTIFIER ::= { enterprises 4 }\n' + TABLE, IMP)),
    ('noimp', 'NOIMP-MIB', M('NOIMP-MIB', 'y OBJECT IDENTIFIER ::= { iso 4 }\nz OBJECT IDENTIFIER ::= { y 1 }')),
    ('v1idx', 'VONE-MIB', M('VONE-MIB', 'vt OBJECT-TYPE SYNTAX SEQUENCE OF VE ACCESS not-accessible STATUS mandatory ::= { enterprises 5 }\n'
                            've OBJECT-TYPE SYNTAX VE ACCESS not-accessible STATUS mandatory INDEX { INTEGER } ::= { vt 1 }\n'
                            'VE ::= SEQUENCE { vc INTEGER }\n'
                            'vc OBJECT-TYPE SYNTAX INTEGER ACCESS read-only STATUS mandatory ::= { ve 1 }',
                   'IMPORTS enterprises FROM RFC1155-SMI OBJECT-TYPE FROM RFC-1212;\n')),
    ('dup', 'DUP-MIB', M('DUP-MIB', 'x OBJECT IDENTIFIER ::= { iso 4 }\nx OBJECT IDENTIFIER ::= { iso 5 }')),
    ('unkpar', 'UNK-MIB', M('UNK-MIB', 'x OBJECT IDENTIFIER ::= { nope 4 }\nq OBJECT IDENTIFIER ::= { nada 4 }')),
    ('lexerr', 'LEX-MIB', M('LEX-MIB', 'x OBJECT IDENTIFIER ::= { iso 4 }\n\n\n!')),
    ('parseerr', 'PE-MIB', M('PE-MIB', 'x OBJECT ::= { iso 4 }')),
    ('cmtEOF', 'CMT-MIB', M('CMT-MIB', 'x OBJECT IDENTIFIER ::= { iso 4 }') + '-- trailing comment without line end'),
    ('macroEOF', 'MAC-MIB', 'MAC-MIB DEFINITIONS ::= BEGIN\nOBJECT-TYPE MACRO ::= BEGIN\n x y z\n'),
    ('exportsEOF', 'EXP-MIB', 'EXP-MIB DEFINITIONS ::= BEGIN\nEXPORTS a, b\n'),
    ('manyimp', 'MANY-MIB', M('MANY-MIB', 'm1 OBJECT-TYPE SYNTAX TruthValue MAX-ACCESS read-write STATUS current DESCRIPTION "d" DEFVAL { true } ::= { enterprises 77 }\n'
                                        'm2 OBJECT-TYPE SYNTAX Counter32 MAX-ACCESS read-only STATUS current DESCRIPTION "d" ::= { enterprises 78 }',
                      'IMPORTS OBJECT-TYPE, enterprises, Counter32, Gauge32, TimeTicks, IpAddress, Unsigned32, Counter64, Integer32 FROM SNMPv2-SMI\n'
                      ' TruthValue, RowStatus, DisplayString, MacAddress, TimeStamp, DateAndTime FROM SNMPv2-TC;\n')),
    ('defvals', 'DEFV-MIB', M('DEFV-MIB',
        'dv1 OBJECT-TYPE SYNTAX BITS { alpha(0), beta(1), gamma(2) } MAX-ACCESS read-write STATUS current DESCRIPTION "d" DEFVAL { { gamma, alpha } } ::= { enterprises 81 }\n'
        'dv2 OBJECT-TYPE SYNTAX INTEGER { up(1), down(2), testing(3) } MAX-ACCESS read-write STATUS current DESCRIPTION "d" DEFVAL { { down, up } } ::= { enterprises 82 }\n'
        'dv3 OBJECT-TYPE SYNTAX INTEGER { up(1), down(2) } MAX-ACCESS read-write STATUS current DESCRIPTION "d" DEFVAL { down } ::= { enterprises 83 }\n'
        'dv4 OBJECT-TYPE SYNTAX OCTET STRING (SIZE (0..8)) MAX-ACCESS read-write STATUS current DESCRIPTION "d" DEFVAL { \'0A0B\'H } ::= { enterprises 84 }\n'
        'dv5 OBJECT-TYPE SYNTAX OBJECT IDENTIFIER MAX-ACCESS read-write STATUS current DESCRIPTION "d" DEFVAL { enterprises } ::= { enterprises 85 }',
        'IMPORTS OBJECT-TYPE, enterprises FROM SNMPv2-SMI;\n')),
    # two versions of ONE module: the same names denote other types in the later version (a revised MIB compiled by a
    # long-lived compiler); anything remembered per (symbol, module) from the first version must not leak into the second
    ('ver1', 'VER-MIB', M('VER-MIB',
        'Threshold ::= TEXTUAL-CONVENTION STATUS current DESCRIPTION "d" SYNTAX OCTET STRING (SIZE (0..4))\n'
        'Mode ::= TEXTUAL-CONVENTION STATUS current DESCRIPTION "d" SYNTAX INTEGER { on(1), off(2) }\n'
        'vThr OBJECT-TYPE SYNTAX Threshold MAX-ACCESS read-write STATUS current DESCRIPTION "d" DEFVAL { \'0aff\'h } ::= { enterprises 91 }\n'
        'vMode OBJECT-TYPE SYNTAX Mode MAX-ACCESS read-write STATUS current DESCRIPTION "d" DEFVAL { off } ::= { enterprises 92 }',
        'IMPORTS OBJECT-TYPE, enterprises, Integer32 FROM SNMPv2-SMI TEXTUAL-CONVENTION FROM SNMPv2-TC;\n')),
    ('ver2', 'VER-MIB', M('VER-MIB',
        'Threshold ::= TEXTUAL-CONVENTION STATUS current DESCRIPTION "d" SYNTAX Integer32 (0..70000)\n'
        'Mode ::= TEXTUAL-CONVENTION STATUS current DESCRIPTION "d" SYNTAX INTEGER { on(1), off(2), auto(3) }\n'
        'vThr OBJECT-TYPE SYNTAX Threshold MAX-ACCESS read-write STATUS current DESCRIPTION "d" DEFVAL { \'0aff\'h } ::= { enterprises 91 }\n'
        'vMode OBJECT-TYPE SYNTAX Mode MAX-ACCESS read-write STATUS current DESCRIPTION "d" DEFVAL { auto } ::= { enterprises 92 }',
        'IMPORTS OBJECT-TYPE, enterprises, Integer32 FROM SNMPv2-SMI TEXTUAL-CONVENTION FROM SNMPv2-TC;\n')),
    # one file holding two modules, the second hanging its OIDs under a node imported from the first; in the other version the
    # first module puts that node elsewhere: anything remembered about IMPORTED symbols must not survive into the next call
    ('pairA', 'PAIR-FILE', M('VBASE-MIB', 'vRoot OBJECT IDENTIFIER ::= { enterprises 99999 }', 'IMPORTS enterprises FROM SNMPv2-SMI;\n') +
                          M('VUSER-MIB', 'vLeaf OBJECT IDENTIFIER ::= { vRoot 7 }\nvLeaf2 OBJECT IDENTIFIER ::= { vLeaf 1 }', 'IMPORTS vRoot FROM VBASE-MIB;\n')),
    ('pairB', 'PAIR-FILE', M('VBASE-MIB', 'vRoot OBJECT IDENTIFIER ::= { enterprises 424242 }', 'IMPORTS enterprises FROM SNMPv2-SMI;\n') +
                          M('VUSER-MIB', 'vLeaf OBJECT IDENTIFIER ::= { vRoot 7 }\nvLeaf2 OBJECT IDENTIFIER ::= { vLeaf 1 }', 'IMPORTS vRoot FROM VBASE-MIB;\n')),
    # the same text as 'rev', generated with another template: options of one call must not stick to the instance
    ('revTpl', 'REV-MIB', M('REV-MIB', MI % ('revMib', '200001100000Z', 71) + '\n' + TABLE.replace('enterprises 9', 'revMib 9'), IMP)),
]
INPUT_BY = {k: (n, t) for k, n, t in INPUTS}
# options handed to the code generator for an input (pysnmp generator kind only: the template ships with that backend)
GEN_OPTIONS = {'revTpl': {'dstTemplate': 'pysnmp/managed-objects-instances.j2'}}
KINDS = ['parser', 'parserV2', 'symtable', 'json', 'pysnmp', 'compiler', 'sameast']


def strip_volatile(text):
    """Generated comments (time stamp, host, user, interpreter) are documented noise."""
    if text is None:
        return None
    try:
        j = json.loads(text)
        j.get('meta', {}).pop('comments', None)
        return json.dumps(j, sort_keys=False)
    except ValueError:
        pass
    return '\n'.join(l for l in text.splitlines()
                     if not re.match(r'^(#\s*)?(Produced by|On host|Using Python|ASN\.1 source)', l.strip()))


def err(exc):
    return ['ERR', type(exc).__name__, getattr(exc, 'lineno', None), re.sub(r'0x[0-9a-f]+', '0x', str(exc))[:200]]


def fresh_symtabs(asts_extra=()):
    """Symbol tables of the base modules (fresh generators each time)."""
    from pysmi.codegen.symtable import SymtableCodeGen
    st = {}
    p = mibs.make_parser()
    for name in ('SNMPv2-SMI', 'SNMPv2-TC', 'SNMPv2-CONF', 'RFC1155-SMI', 'RFC-1212'):
        for ast in p.parse(mibs.BASE[name]):
            mi, tab = SymtableCodeGen().genCode(ast, st)
            st[mi.name] = tab
    return st


_BASE_ST = None


def base_symtabs():
    global _BASE_ST
    if _BASE_ST is None:
        _BASE_ST = fresh_symtabs()
    import copy
    return copy.deepcopy(_BASE_ST)


class Instance(object):
    """One long-lived object of the given kind and the operation applied to every input."""

    def __init__(self, kind):
        from pysmi.codegen.symtable import SymtableCodeGen
        from pysmi.codegen.jsondoc import JsonCodeGen
        from pysmi.codegen.pysnmp import PySnmpCodeGen
        self.kind = kind
        if kind == 'parser':
            self.obj = mibs.make_parser('smiV1Relaxed')
        elif kind == 'parserV2':
            self.obj = mibs.make_parser('smiV2')
        elif kind == 'symtable':
            self.obj = SymtableCodeGen()
        elif kind == 'json':
            self.obj = JsonCodeGen()
        elif kind == 'pysnmp':
            self.obj = PySnmpCodeGen()
        elif kind == 'compiler':
            self.texts = {}
            self.pipe = mibs.Pipeline(self.texts, backend='json')
            self.pipe.texts = self.texts
            self.texts.update(mibs.BASE)
        elif kind == 'sameast':
            self.cache = {}
        self.kept = []

    def pre(self):
        if self.kind in ('parser', 'parserV2'):
            lx = self.obj.lexer.lexer
            return [lx.lineno, lx.lexstate]
        return []

    def feed(self, key):
        from pysmi.codegen.symtable import SymtableCodeGen
        from pysmi.codegen.jsondoc import JsonCodeGen
        name, text = INPUT_BY[key]
        k = self.kind
        if k in ('parser', 'parserV2'):
            try:
                r = ['TREE', mibs.digest(self.obj.parse(text))]
            except Exception as exc:
                r = err(exc)
            self.kept.append(lambda r=r: r)
            return r
        if k == 'compiler':
            self.texts[name] = text
            self.pipe.written.clear()
            try:
                res = self.pipe.compile(name, genTexts=True)
            except Exception as exc:
                r = err(exc)
                self.kept.append(lambda r=r: r)
                return r
            written = dict(self.pipe.written)
            # the returned status objects are kept: what they say must not change when the compiler is used again
            self.kept.append(lambda res=res, written=written: [
                sorted((m, mibs.status_summary(s)) for m, s in res.items() if m not in mibs.BASE),
                sorted((m, mibs.digest(strip_volatile(t))) for m, t in written.items())])
            return self.kept[-1]()
        # generator kinds: parse with a fresh parser (the parser is not the instance under test)
        try:
            if k == 'sameast' and key in self.cache:
                asts = self.cache[key]
            else:
                asts = mibs.make_parser().parse(text)
                if k == 'sameast':
                    self.cache[key] = asts
        except Exception as exc:
            r = ['PARSE-' + type(exc).__name__]
            self.kept.append(lambda r=r: r)
            return r
        out = []
        raws = []
        st = base_symtabs()
        for ast in asts:
            try:
                sg = self.obj if k == 'symtable' else SymtableCodeGen()
                mi, tab = sg.genCode(ast, st)
                st[mi.name] = tab
                if k == 'symtable':
                    out.append(['SYM', mi.name, str(mi.revision), list(mi.imported), mibs.digest(sorted((a, repr(b)) for a, b in tab.items()))])
                    continue
                cg = self.obj if k in ('json', 'pysnmp') else JsonCodeGen()
                mi, text_ = cg.genCode(ast, st, genTexts=True, **(GEN_OPTIONS.get(key, {}) if k == 'pysnmp' else {}))
                raws.append((mi, text_))
                out.append(None)
            except Exception as exc:
                raws.append(None)
                out.append(err(exc))
        if k == 'symtable':
            self.kept.append(lambda out=out: out)
            return out

        def proj(out=out, raws=raws):
            # the MibInfo objects are kept: a summary already handed out must not change when the generator runs again
            return [o if r is None else ['GEN', r[0].name, str(r[0].revision), r[0].identity, sorted(r[0].oids), r[0].enterprise,
                                         list(r[0].compliance), mibs.digest(strip_volatile(r[1]))] for o, r in zip(out, raws)]
        self.kept.append(proj)
        return proj()


_fresh = {}


def fresh_out(kind, key):
    if (kind, key) not in _fresh:
        inst = Instance(kind)
        _fresh[(kind, key)] = (inst.pre(), inst.feed(key))
    return _fresh[(kind, key)]


def run_history(kind, hist):
    inst = Instance(kind)
    evs = []
    for pos, key in enumerate(hist):
        fpre, fout = fresh_out(kind, key)
        pre = inst.pre()
        out = inst.feed(key)
        evs.append({'pos': pos + 1, 'input': key, 'out': json.dumps(out, sort_keys=True, default=str), 'fresh': json.dumps(fout, sort_keys=True, default=str),
                    'pre': json.dumps(pre), 'freshpre': json.dumps(fpre)})
    # after the whole history: what the earlier results say NOW
    for e, again in zip(evs, inst.kept):
        e['later'] = json.dumps(again(), sort_keys=True, default=str)
    return evs


SEED_SCRIPT = r'''
import sys, json
sys.path.insert(0, %r); sys.path.insert(0, __import__('os').environ.get('VERIF_REPO', '/repo'))
from checks import history
out = {}
for kind in ('symtable', 'json', 'pysnmp', 'compiler'):
    for key, name, text in history.INPUTS:
        out[kind + '/' + key] = json.dumps(history.Instance(kind).feed(key), sort_keys=True, default=str)
print(json.dumps(out))
'''


def _run_history_job(job):
    return run_history(job[0], job[1])


def seed_runs(seeds):
    verif = os.path.dirname(os.path.dirname(os.path.abspath(__file__)))
    procs = []
    for s in seeds:
        env = dict(os.environ)
        env['PYTHONHASHSEED'] = str(s)
        procs.append((s, subprocess.Popen([sys.executable, '-c', SEED_SCRIPT % verif], env=env, stdout=subprocess.PIPE,
                                          stderr=subprocess.PIPE, universal_newlines=True)))
    res = {}
    for s, p in procs:
        o, e = p.communicate(timeout=1800)
        if p.returncode != 0:
            raise tlc.TlcError('seed run %s failed: %s' % (s, e[-2000:]))
        res[s] = json.loads(o.strip().splitlines()[-1])
    return res


def run(out, prop, tier, seed, **kw):
    rnd = random.Random(seed)
    keys = [k for k, _, _ in INPUTS]
    maxlen = 2 if tier == 'quick' else 3
    cfg = ('CONSTANTS\n  Inputs = {%s}\n  Kinds = {%s}\n  MaxLen = %d\n  Dev_NoResetOnFailure = FALSE\n  Dev_RevisionSurvives = FALSE\n'
           'INIT Init\nNEXT Next\nINVARIANT Stateless\nINVARIANT Export\n') % (
        ', '.join('"%s"' % k for k in keys), ', '.join('"%s"' % k for k in KINDS), maxlen)
    res = tlc.run('MC_History', 'g.cfg', files={'g.cfg': cfg}, timeout=3000)
    out.add_tlc(res, 'History/len<=%d' % maxlen)
    hists, seen = [], set()
    for e in res.exports:
        key = (e['kind'], tuple(e['hist']))
        if key in seen:
            continue
        seen.add(key)
        if e['kind'] == 'sameast' and len(set(e['hist'])) == len(e['hist']):
            continue                       # this kind is about processing the SAME tree object again
        hists.append(key)
    if tier == 'quick':
        # all histories of length <= 2 for the parser/generator kinds; 300 sampled length-3 ones
        extra = [(k, tuple(rnd.choice(keys) for _ in range(3))) for k in KINDS for _ in range(45)]
        hists += [h for h in extra if not (h[0] == 'sameast' and len(set(h[1])) == 3)]
    traces = []
    from harness import par
    all_evs = par.pmap(_run_history_job, hists, chunk=24)
    for i, (kind, h) in enumerate(hists):
        evs = all_evs[i]
        traces.append({'id': 'h%d' % i, 'kind': kind, 'events': evs, 'seedruns': [{'seed': 0, 'digest': 'x'}]})
        out.evaluations += 1
        if len(h) > 1:
            out.distinct.add((kind, h))
    seeds = [0, 1, 2, 3, 7] if tier == 'quick' else list(range(32))
    sr = seed_runs(seeds)
    for item in sorted(sr[seeds[0]]):
        traces.append({'id': 'seed:' + item, 'kind': 'seed', 'events': [],
                       'seedruns': [{'seed': s, 'digest': mibs.digest(sr[s][item])} for s in seeds]})
        out.evaluations += len(seeds)
    scratch = tlc.mkscratch('hi-')
    path = os.path.join(scratch, 'traces.json')
    with open(path, 'w') as fh:
        json.dump(traces, fh)
    vres = tlc.run('HistoryTrace', 't.cfg', files={'t.cfg': 'INIT Init\nNEXT Next\nINVARIANT Report\n'}, env={'TRACE_FILE': path}, workers=4, timeout=3000)
    out.add_tlc(vres, 'HistoryTrace')
    verdicts = {v['id']: v for v in vres.exports}
    for t in traces:
        v = verdicts.get(t['id'])
        if v is None:
            out.machinery_errors.append('no verdict for %s' % t['id'])
            continue
        out.traces += 1
        if t['kind'] == 'seed':
            if v['failed']:
                out.violation('SeedFree;%s' % t['id'].split(':')[1].split('/')[0], 'output of %s differs between hash seeds %s' % (t['id'][5:], seeds),
                              {'kind': 'seed', 'item': t['id'], 'runs': t['seedruns']})
            continue
        h = [e['input'] for e in t['events']]
        if out.traces % 199 == 1:
            out.sample({'instance': t['kind'], 'history': h, 'verdict': v})
        if 'Stable' in v['failed']:
            bad = [e for e in t['events'] if e.get('later') != e['out']][0]
            out.violation('Stable;%s' % t['kind'], '%s instance, history %s: the result handed out for %r (position %d) says something else after the later calls: %s  now %s' % (
                t['kind'], h, bad['input'], bad['pos'], bad['out'][:160], bad['later'][:160]), {'kind': 'history', 'instance': t['kind'], 'history': h})
        if [f for f in v['failed'] if f != 'Stable']:
            e = t['events'][v['at'] - 1]
            prev = h[v['at'] - 2] if v['at'] > 1 else '-'
            what = '%s instance, history %s: result for %r (position %d, after %r) differs from a fresh instance: %s  vs fresh %s' % (
                t['kind'], h, e['input'], v['at'], prev, e['out'][:160], e['fresh'][:160])
            out.violation('Stateless;%s;%s' % (t['kind'], leak_class(t['kind'], prev, e)), what, {'kind': 'history', 'instance': t['kind'], 'history': h})
        elif not v['pristine']:
            out.add_drift('%s instance not pristine at entry, history %s' % (t['kind'], h))
    out.assumptions += ['generated comments (time stamp, host, user, interpreter) are excluded from comparisons',
                        'fresh-instance results are the oracle (differential); the TLA+ model contributes the history enumeration and the reset discipline',
                        'hash seeds are exercised in sub-processes (PYTHONHASHSEED)']


def leak_class(kind, prev, e):
    if kind.startswith('parser'):
        return 'after-failed-parse' if prev in ('lexerr', 'parseerr', 'macroEOF', 'exportsEOF') else 'parser-other'
    if 'revision' in e['out'] or '200' in e['out'] or '1995' in e['out']:
        if prev in ('rev', 'rev2'):
            return 'revision-leak'
    return 'other'


def replay(path):
    with open(path) as fh:
        rp = json.load(fh)['replay']
    if rp['kind'] == 'seed':
        print(rp)
        return
    for e in run_history(rp['instance'], rp['history']):
        print(e['input'], 'SAME' if e['out'] == e['fresh'] else 'DIFFERENT', e['out'][:300])
