"""C20: scripts/mibdump.py and scripts/mibcopy.py against specs/MibDump.tla and specs/MibCopy.tla.

mibdump: TLC enumerates WORLDS (state of source / borrower / destination directories x command line) slice by
slice and model-checks the C20 formulas on MibDump (= MibCompile driven by the world + script steps).  Every
exported world (quick: a seeded sample) is materialised on disk, the REAL script is run on it (in-process with
recording proxies around MibCompiler.compile/buildIndex; a sample also as a true subprocess), and the observation
(exit status, parsed report, status map, files created / replaced / removed) is validated by TLC against
MibDumpTrace: the formulas are evaluated on the observation (monitor) and the observation is compared with the
terminal state the specification reaches from the same world (refinement).

mibcopy: TLC enumerates source file multisets x initial destinations x ALL visiting orders on MibCopy.tla; each
behaviour is replayed with the real script (sources passed in the chosen order) and validated against MibCopyTrace.
"""
import json
import os
import random
import shutil

from harness import tlc, cli, mibs, par

T0 = 1000000000
FORMULAS = ['P_ExitZeroOnlyIfClean', 'P_Usage64', 'P_HelpDoesNothing', 'P_ReportMatchesStatus', 'P_FilesAreReported',
            'P_IndexOnlyWhenAsked']
NSEA = {'json': 2, 'pysnmp': 4, 'null': 1}
SUFFIX = {'json': '.json', 'pysnmp': '.py', 'null': '.null'}

DUMP_CFG = '''CONSTANTS
  NSrc = 2
  NSea = {nsea}
  NBor = 1
  ReqSet = {{}}
  SrcAnswersFor <- NoSrc
  SeaAns = {{}}
  GenAns = {{"ok", "err"}}
  BorAns = {{}}
  PutAns = {{}}
  ConstImp <- NoConstImp
  Dev_StaleStatus = FALSE
  Dev_EmptyVanishes = FALSE
  Dev_MissingRequestedNotBorrowed = FALSE
  Dev_RefetchAlias = FALSE
  Fmt = "{fmt}"
  Dom <- {dom}
  Keep <- {keep}
'''
# tier -> [(label, fmt, Dom, Keep, replay cap)]
DUMP_SLICES = {
    'quick': [('usage-json', 'json', 'Dom_usage', 'KeepAll', None), ('usage-pysnmp', 'pysnmp', 'Dom_usage', 'KeepAll', None),
              ('status-json', 'json', 'Dom_status', 'Keep_status_q', 1200),
              ('graph-json', 'json', 'Dom_graph', 'Keep_graph_q', 900),
              ('report-json', 'json', 'Dom_report', 'KeepAll', 600),
              ('sources-json', 'json', 'Dom_sources', 'KeepAll', 500),
              ('dest-json', 'json', 'Dom_dest', 'Keep_dest_q', 500),
              ('null', 'null', 'Dom_null', 'KeepAll', 250),
              ('stub-json', 'json', 'Dom_stub', 'KeepAll', 300), ('stub-pysnmp', 'pysnmp', 'Dom_stub', 'KeepAll', 150),
              ('report-pysnmp', 'pysnmp', 'Dom_report', 'Keep_report_q', 300)],
    'thorough': [('usage-json', 'json', 'Dom_usage', 'KeepAll', None), ('usage-pysnmp', 'pysnmp', 'Dom_usage', 'KeepAll', None),
                 ('status-json', 'json', 'Dom_status', 'KeepAll', None),
                 ('graph-json', 'json', 'Dom_graph', 'Keep_graph_t', None),
                 ('report-json', 'json', 'Dom_report', 'KeepAll', None),
                 ('sources-json', 'json', 'Dom_sources', 'KeepAll', None),
                 ('dest-json', 'json', 'Dom_dest', 'KeepAll', None),
                 ('dest-pysnmp', 'pysnmp', 'Dom_dest', 'Keep_dest_q', 3000),
                 ('null', 'null', 'Dom_null', 'KeepAll', None),
                 ('stub-json', 'json', 'Dom_stub', 'KeepAll', None), ('stub-pysnmp', 'pysnmp', 'Dom_stub', 'KeepAll', None),
                 ('report-pysnmp', 'pysnmp', 'Dom_report', 'KeepAll', None),
                 ('status-pysnmp', 'pysnmp', 'Dom_status', 'Keep_status_q', 4000)],
}


# ------------------------------------------------------------------ world -> disk and command line
def module_text(name, w):
    a = name == 'AA-MIB'
    me, other = ('a', 'b') if a else ('b', 'a')
    imports_other = w['imp'] in (('AB', 'both') if a else ('BA', 'both'))
    t = '%s DEFINITIONS ::= BEGIN\nIMPORTS enterprises, MODULE-IDENTITY FROM SNMPv2-SMI' % name
    if imports_other:
        other_name = 'BB-MIB' if a else 'AA-MIB'
        if w.get('spell') == 'variant':
            other_name = 'Bb-Mib' if a else 'Aa-Mib'
        t += '\n    %s FROM %s' % ('bRoot' if a else 'aId', other_name)
    t += ';\n%sId MODULE-IDENTITY LAST-UPDATED "200001010000Z" ORGANIZATION "o" CONTACT-INFO "c" DESCRIPTION "d"\n' % me
    t += '    ::= { enterprises %d }\n' % (4710 if a else 4711)
    parent = ('bRoot' if a else 'aId') if imports_other else me + 'Id'
    t += '%sRoot OBJECT IDENTIFIER ::= { %s 1 }\nEND\n' % (me, parent)
    return t


def _put(path, text, mtime):
    with open(path, 'w') as fh:
        fh.write(text)
    os.utime(path, (mtime, mtime))


CLI_TIMES = {'src': (T0, T0), 'bor': T0, 'fresh': T0 + 100, 'stale': T0 - 100}


def build_world(w, fmt, root, times=CLI_TIMES):
    """Write the world to disk: root/src, root/src2, root/bor, root/dst."""
    src, src2, bor, dst = (os.path.join(root, x) for x in ('src', 'src2', 'bor', 'dst'))
    for d in (src, src2, bor, dst):
        os.makedirs(d)
    T0 = times['src'][0]
    if w['base']:
        for n in ('SNMPv2-SMI', 'SNMPv2-TC', 'SNMPv2-CONF'):
            _put(os.path.join(src, n + '.txt'), mibs.BASE[n], T0)
    for n, st in (('AA-MIB', w['srcA']), ('BB-MIB', w['srcB'])):
        where = src
        if n == 'BB-MIB' and w.get('sub') and st != 'missing':
            where = os.path.join(src, 'vendor', 'more')       # below the top directory of the (recursive) source
            os.makedirs(where)
        packed = module_text('BB-MIB', w) if (n == 'AA-MIB' and w['srcB'] == 'packed') else ''      # two modules in one file
        if st == 'ok':
            _put(os.path.join(where, n + '.txt'), module_text(n, w) + packed, T0)
        elif st == 'broken':
            _put(os.path.join(where, n + '.txt'), module_text(n, w).replace('END\n', '::= ::= END\n') + packed, T0)
        elif st == 'cut':       # ends inside a MACRO body: leaves a careless lexer in its "macro" state for the next file
            _put(os.path.join(where, n + '.txt'), module_text(n, w).replace('END\n', 'OBJECT-TYPE MACRO ::= BEGIN\n  TYPE NOTATION ::= "SYNTAX"\n'), T0)
    if w['alias']:
        _put(os.path.join(src, 'afile.txt'), module_text('AA-MIB', w), T0)
    if w['src2A'] == 'ok':
        _put(os.path.join(src2, 'AA-MIB.txt'), module_text('AA-MIB', w).replace('DESCRIPTION "d"', 'DESCRIPTION "second"'), times['src'][1])
    elif w['src2A'] == 'broken':
        _put(os.path.join(src2, 'AA-MIB.txt'), module_text('AA-MIB', w).replace('END\n', '::= ::= END\n'), times['src'][1])
    sfx = SUFFIX[fmt]
    borrowed = {'json': '{"borrowed": "%s"}\n', 'pysnmp': '# borrowed %s\nx = 1\n', 'null': 'borrowed %s\n'}[fmt]
    for n, b in (('AA-MIB', w['borA']), ('BB-MIB', w['borB'])):
        if b:
            _put(os.path.join(bor, n + sfx), borrowed % n, times['bor'])
    old = {'json': '{"old": "%s"}\n', 'pysnmp': '# old %s\nx = 0\n', 'null': 'old %s\n'}[fmt]
    for n, st in (('AA-MIB', w['dstA']), ('BB-MIB', w['dstB'])):
        if st != 'absent':
            _put(os.path.join(dst, n + sfx), old % n, times['fresh'] if st == 'fresh' else times['stale'])
    if w.get('dstKind') == 'file':        # the destination "directory" is a regular file
        shutil.rmtree(dst)
        _put(dst, 'not a directory\n', T0)
    return src, src2, bor, dst


def materialise(w, fmt, root):
    """-> (argv, dst directory)"""
    src, src2, bor, dst = build_world(w, fmt, root)
    path_form = w.get('reqForm') == 'path'
    # requests given as paths: the script itself puts their directory in front of the sources
    argv = ([] if path_form else ['--mib-source=file://' + src]) + ['--mib-source=file://' + src2]
    if w['texts'] == 'before':
        argv.append('--generate-mib-texts')
    argv.append('--mib-borrower=file://' + bor)
    if w['texts'] == 'after':
        argv.append('--generate-mib-texts')
    argv += ['--destination-format=' + ('xml' if w['usage'] == 'badFormat' else fmt), '--destination-directory=' + dst]
    for flag, opt in (('noDeps', '--no-dependencies'), ('rebuild', '--rebuild'), ('ignoreErrors', '--ignore-errors'),
                      ('noWrites', '--no-mib-writes'), ('dryRun', '--dry-run'), ('buildIndex', '--build-index'),
                      ('quiet', '--quiet')):
        if w[flag]:
            argv.append(opt)
    if w.get('stubB'):
        argv.append('--mib-stub=BB-MIB')
    if w['usage'] == 'help':
        argv.append('--help')
    elif w['usage'] == 'badOpt':
        argv.append('--no-such-option')
    elif w['usage'] == 'badLevel':
        argv.append('--python-optimization-level=fast')
    if w['usage'] != 'noMibs':
        argv += [os.path.join(src, r + '.txt') for r in w['req']] if path_form else list(w['req'])
    return argv, dst


def observe_dump(w, fmt, root, how='inproc', debug=False):
    argv, dst = materialise(w, fmt, root)
    if debug and w['usage'] == 'none':
        argv.insert(0, '--debug=all')          # debugging output must not change what the tool does
    before = cli.snapshot(dst) if os.path.isdir(dst) else {'<file>': cli.snapshot(os.path.dirname(dst)).get(os.path.basename(dst))}
    r = cli.run_inproc('mibdump', argv, cwd=root) if how == 'inproc' else cli.run_subproc('mibdump', argv, cwd=root)
    after = cli.snapshot(dst) if os.path.isdir(dst) else {'<file>': cli.snapshot(os.path.dirname(dst)).get(os.path.basename(dst))}
    created, rewritten, removed = cli.diff_snap(before, after)
    sfx = SUFFIX[fmt]
    touched, idx = [], False
    for f in created + rewritten:
        if f in ('index' + sfx, 'index'):
            idx = True
        elif f.endswith(sfx):
            touched.append(f[:-len(sfx)])
        else:
            touched.append('?' + f)          # a stray file counts as an unreported file
    index = []
    if idx and fmt == 'json':
        try:
            with open(os.path.join(dst, 'index.json')) as fh:
                index = [{'oid': [int(x) for x in k.split('.')], 'mods': list(v)} for k, v in json.load(fh).get('oids', {}).items()]
        except (OSError, ValueError):
            index = [{'oid': [], 'mods': ['<unreadable index>']}]
    rep, dry = cli.parse_dump_report(r['stderr'])
    comp = r.get('compiles', [])
    completed = bool(comp) and 'processed' in comp[0]
    proc = [{'name': m, 'st': v[0]} for m, v in sorted(comp[0]['processed'].items())] if completed else []
    obs = {'exit': r['exit'], 'reported': rep is not None,
           'report': {c: sorted((rep or {}).get(c, [])) for c in ('compiled', 'untouched', 'failed', 'unprocessed', 'missing', 'borrowed')},
           'proc': proc, 'ncompiles': len(comp), 'completed': completed, 'written': sorted(touched),
           'removed': removed, 'idx': idx, 'index': index}
    if how != 'inproc':
        obs.pop('proc'), obs.pop('ncompiles'), obs.pop('completed'), obs.pop('index')
    extra = {'argv': argv, 'stderr_tail': r['stderr'][-600:], 'escaped': r.get('escaped'),
             'cwd_litter': sorted(x for x in os.listdir(root) if x not in ('src', 'src2', 'bor', 'dst'))}
    return obs, extra


def _dump_job(job):
    i, w, fmt, base = job
    root = os.path.join(base, 'w%d' % i)
    os.makedirs(root)
    try:
        obs, extra = observe_dump(w, fmt, root, debug=(i % 9 == 4))
        sub = None
        if i % 40 == 0:      # the same world through a real subprocess: exit, report, files must agree
            root2 = os.path.join(base, 'w%ds' % i)
            os.makedirs(root2)
            sub, _ = observe_dump(w, fmt, root2, how='subproc')
            shutil.rmtree(root2, ignore_errors=True)
        return i, obs, extra, sub
    finally:
        shutil.rmtree(root, ignore_errors=True)


def brief_world(w, fmt):
    flags = (['dst-is-a-file'] if w.get('dstKind') == 'file' else []) + (['B-in-subdir'] if w.get('sub') else []) + (['stub=BB-MIB'] if w.get('stubB') else []) + [k for k in ('noDeps', 'rebuild', 'ignoreErrors', 'noWrites', 'dryRun', 'buildIndex', 'quiet', 'alias') if w[k]]
    return '%s req=%s%s src=%s+%s/%s imp=%s%s dst=%s/%s bor=%d%d base=%d texts=%s usage=%s %s' % (
        fmt, ','.join(w['req']), '(paths)' if w.get('reqForm') == 'path' else '', w['srcA'], w['src2A'], w['srcB'], w['imp'], '~' if w.get('spell') == 'variant' else '', w['dstA'], w['dstB'], w['borA'], w['borB'], w['base'],
        w['texts'], w['usage'], '+'.join(flags))


def run_dump(out, prop, tier, seed, only_slices=None, only_formulas=None):
    rnd = random.Random(seed)
    base = tlc.mkscratch('dump-')
    for label, fmt, dom, keep, cap in DUMP_SLICES[tier]:
        if only_slices and label not in only_slices:
            continue
        cfg = DUMP_CFG.format(nsea=NSEA[fmt], fmt=fmt, dom=dom, keep=keep)
        if cap:
            # sampled slice: TLC only enumerates its worlds (one state each); the sampled worlds are run to their end, with
            # the formulas as invariants, by the trace specification below.  Slices without cap are model-checked in full.
            mc = cfg + 'INIT DInit\nNEXT NoStep\nINVARIANT ExportWorldInit\n'
            res = tlc.run('MC_MibDump', 'g.cfg', files={'g.cfg': mc}, timeout=6000)
        else:
            mc = cfg + 'INIT DInit\nNEXT DNext\nINVARIANT DTypeOK\n' + ''.join('INVARIANT %s\n' % f for f in FORMULAS) + 'INVARIANT Export\n'
            res = tlc.run('MC_MibDump', 'g.cfg', files={'g.cfg': mc}, timeout=6000, deadlock=True, coverage=True)
            cov = out.extra.setdefault('action_coverage', {})
            for a, (d_, t_) in res.coverage.items():
                cov[a] = cov.get(a, 0) + t_
        out.add_tlc(res, 'MibDump/' + label + ('(worlds enumerated)' if cap else ''))
        scen = res.exports
        if not scen:
            out.machinery_errors.append('slice %s exported nothing' % label)
            continue
        if cap and len(scen) > cap:
            scen = rnd.sample(scen, cap)
        jobs = [(i, s['w'], fmt, base) for i, s in enumerate(scen)]
        results = par.pmap(_dump_job, jobs, chunk=8)
        traces, info = [], {}
        for i, obs, extra, sub in results:
            tid = '%s-%d' % (label, i)
            w = scen[i]['w']
            out.evaluations += 1
            if w['usage'] == 'none':
                out.distinct.add(json.dumps(w, sort_keys=True) + fmt)
            traces.append({'id': tid, 'w': w, 'obs': obs})
            info[tid] = (w, obs, extra)
            if extra['cwd_litter']:
                out.add_drift('files left in the working directory %s for %s' % (extra['cwd_litter'], brief_world(w, fmt)))
            if sub is not None:
                same = all(sub[k] == obs[k] for k in sub)
                if not same:
                    out.machinery_errors.append('in-process and subprocess runs of mibdump disagree for %s: %s vs %s' % (
                        brief_world(w, fmt), {k: obs[k] for k in sub}, sub))
        path = os.path.join(base, 'traces-%s.json' % label)
        with open(path, 'w') as fh:
            json.dump(traces, fh)
        tcfg = cfg.replace('Dom <- ' + dom, 'Dom <- Dom_usage').replace('Keep <- ' + keep, 'Keep <- KeepAll') + \
            'INIT TInit\nNEXT TNext\nINVARIANT Report\nINVARIANT DTypeOK\n' + ''.join('INVARIANT %s\n' % f for f in FORMULAS)
        vres = tlc.run('MibDumpTrace', 't.cfg', files={'t.cfg': tcfg}, env={'TRACE_FILE': path}, workers=8, timeout=6000, deadlock=True, coverage=True)
        out.add_tlc(vres, 'MibDumpTrace/' + label)
        cov = out.extra.setdefault('action_coverage', {})
        for a, (d_, t_) in vres.coverage.items():
            cov[a] = cov.get(a, 0) + t_
        os.unlink(path)
        verdicts = {v['id']: v for v in vres.exports}
        for t in traces:
            v = verdicts.get(t['id'])
            if v is None:
                out.machinery_errors.append('no verdict for %s' % t['id'])
                continue
            out.traces += 1
            w, obs, extra = info[t['id']]
            if out.traces % 397 == 1:
                out.sample({'tool': 'mibdump', 'world': w, 'format': fmt, 'observed': obs, 'verdict': v})
            rp = {'kind': 'mibdump', 'format': fmt, 'world': w, 'observed': obs, 'argv': extra['argv'],
                  'stderr_tail': extra['stderr_tail'], 'escaped': extra['escaped'], 'verdict': v}
            failed = list(v['failed'])
            if v['noreport']:
                failed.append('CompletedRunsReport')
            if only_formulas is not None:
                failed = [f for f in failed if f in only_formulas]
            for f in failed:
                sig = 'formula=%s;%s' % (f, dump_witness(f, w, fmt, obs, extra))
                out.violation(sig, 'mibdump: %s fails for %s (exit %s)' % (f, brief_world(w, fmt), obs['exit']), rp)
            if not failed and v['drift'] != 'ok' and only_formulas is None:
                out.add_drift('mibdump %s differs from MibDump.tla for %s: observed exit=%s proc=%s written=%s; model exit=%s proc=%s written=%s' % (
                    v['drift'], brief_world(w, fmt), obs['exit'], {p['name']: p['st'] for p in obs['proc']}, obs['written'],
                    v['mexit'], {p['name']: p['st'] for p in v['mproc']}, v['mfiles']))
    if only_formulas is not None:
        return
    never = [a for a in ('TNext',) if out.extra.get('action_coverage', {}).get(a, 0) == 0]       # (the trace specification's single action wraps DArgs ... DExit)
    if never and not only_slices:
        out.machinery_errors.append('actions of MibDump never taken in this run (vacuous): %s' % never)
    if not only_slices:
        # the script always ends (report + exit, or the recorded crash): temporal property under the fair specification
        lcfg = DUMP_CFG.format(nsea=2, fmt='json', dom='Dom_live', keep='KeepAll') + 'SPECIFICATION DSpec\nPROPERTY DTermination\n'
        lres = tlc.run('MC_MibDump', 'live.cfg', files={'live.cfg': lcfg}, timeout=3000)
        out.add_tlc(lres, 'MibDump/liveness(DTermination under WF)')
    out.assumptions += ['TLC + Json module trusted',
                        'the script is run in-process (runpy) with proxies around MibCompiler.compile/buildIndex; every 40th world also as a real subprocess and compared',
                        'file times are set with os.utime; __pycache__/*.pyc are projected away',
                        'network sources/borrowers of the script defaults are never used (explicit file:// URLs)']


def dump_witness(f, w, fmt, obs, extra):
    esc = (extra.get('escaped') or '').split(':')[0]
    if f == 'CompletedRunsReport':
        return '%s;%s;%s' % (fmt, 'build-index' if w['buildIndex'] else 'no-index', esc or 'no-exception')
    return '%s;%s' % (fmt, esc or 'no-exception')


def run(out, prop, tier, seed, only_slices=None):
    run_dump(out, prop, tier, seed, only_slices)
    if not only_slices or any(s.startswith('copy') for s in only_slices):
        from checks import mibcopy
        mibcopy.run(out, prop, tier, seed, only_slices)


def replay(path):
    with open(path) as fh:
        rp = json.load(fh)['replay']
    if rp['kind'] == 'mibcopy':
        from checks import mibcopy
        return mibcopy.replay(path)
    root = tlc.mkscratch('dump-replay-')
    obs, extra = observe_dump(rp['world'], rp['format'], root)
    print(json.dumps({'argv': extra['argv'], 'observed': obs, 'stderr_tail': extra['stderr_tail']}, indent=1))
