"""Real-components configuration of MibCompile (C07 C08 C09 C10 C19): worlds enumerated by TLC on MibDump.tla
(= MibCompile.tla with the environment derived from what is on disk) are materialised and compiled by the real
MibCompiler with the real FileReader / parser / symbol-table pass / JsonCodeGen / AnyFileSearcher / StubSearcher /
AnyFileBorrower / FileWriter.  Recording proxies (harness/realworld.py) log every component call; the call log and
the result map are validated by TLC against MibCompileTrace: refinement (the specification, fed with the OBSERVED
answers, must produce the same log and result) and the property formulas evaluated on the observation."""
import json
import os
import random
import shutil

from harness import tlc, par, realworld
from checks import clitools, mibcompile

# ground-truth formulas of RealWorldTrace.tla that belong to each property
# (C07: a healthy module that fails to parse because of the module read before it is an error that was not contained)
TRUTH = {'C08': ('SourceTruth',), 'C10': ('SearcherTruth',), 'C19': ('BorrowerTruth',), 'C07': ('WriterTruth', 'SourceTruth'), 'C09': ()}
RW_TIMES = {'src': (101, 102), 'bor': 201, 'fresh': 1000, 'stale': 50}
# tier -> [(label, Dom, Keep, cap)]
SLICES = {
    'quick': [('rw-status', 'Dom_status', 'Keep_status_q', 600), ('rw-graph', 'Dom_graph', 'Keep_graph_q', 600),
              ('rw-sources', 'Dom_sources', 'KeepAll', 600), ('rw-dest', 'Dom_dest', 'Keep_dest_q', 500)],
    'thorough': [('rw-status', 'Dom_status', 'KeepAll', 20000), ('rw-graph', 'Dom_graph', 'Keep_graph_t', 30000),
                 ('rw-sources', 'Dom_sources', 'KeepAll', None), ('rw-dest', 'Dom_dest', 'KeepAll', None)],
}


def _job(job):
    i, w, base = job
    root = os.path.join(base, 'r%d' % i)
    os.makedirs(root)
    try:
        dirs = clitools.build_world(w, 'json', root, times=RW_TIMES)
        opts = {'noDeps': w['noDeps'], 'rebuild': w['rebuild'], 'ignoreErrors': w['ignoreErrors'],
                'genTexts': w['texts'] != 'no', 'writeMibs': not w['noWrites'], 'dryRun': w['dryRun']}
        cwd = os.getcwd()
        os.chdir(root)
        from pysmi import debug
        try:
            if i % 4 == 1:      # every debug category switched on: logging must not change any call or result
                debug.setLogger(debug.Debug('all', loggerName='verif-null'))
            second = None
            if i % 3 == 2 and w.get('dstKind', 'dir') == 'dir' and not w.get('stubB'):
                # a session: the SAME compiler (reader, searchers, generators, writer) is asked twice; what the first call
                # stored is aged to "up to date" in between, so the second call must behave like a first call on that world
                def between(first):
                    for e in first['log']:
                        if e['ev'] == 'put' and e['ans'] == 'ok' and not e['flag']:
                            os.utime(os.path.join(dirs[3], e['name'] + '.json'), (RW_TIMES['fresh'], RW_TIMES['fresh']))
                tr, tr2 = realworld.run_world(dirs, w['req'], opts, flavour=(w['texts'] == 'before'), calls=2, between=between)
                stored = {e['name'] for e in tr['log'] if e['ev'] == 'put' and e['ans'] == 'ok' and not e['flag']}
                w2 = dict(w)
                for m, fld in (('AA-MIB', 'dstA'), ('BB-MIB', 'dstB')):
                    if m in stored:
                        w2[fld] = 'fresh'
                if not (stored - {'AA-MIB', 'BB-MIB'}):      # (names the world has no field for cannot be expressed)
                    second = (w2, tr2)
            else:
                tr = realworld.run_world(dirs, w['req'], opts, flavour=(w['texts'] == 'before'))
        finally:
            debug.setLogger(0)
            os.chdir(cwd)
        return i, tr, second
    finally:
        shutil.rmtree(root, ignore_errors=True)


def run(out, prop, tier, seed, only_slices=None):
    formulas = mibcompile.PROP_FORMULAS[prop]
    rnd = random.Random(seed + 7)
    base = tlc.mkscratch('rw-')
    for label, dom, keep, cap in SLICES[tier]:
        if only_slices and label not in only_slices:
            continue
        if cap and tier == 'quick':
            # sampled slice: TLC only enumerates the worlds; the sampled ones are run - with the formulas as invariants - by RealWorldTrace
            cfg = clitools.DUMP_CFG.format(nsea=2, fmt='json', dom=dom, keep=keep) + 'INIT DInit\nNEXT NoStep\nINVARIANT ExportWorldInit\n'
            res = tlc.run('MC_MibDump', 'g.cfg', files={'g.cfg': cfg}, timeout=6000)
        else:
            cfg = clitools.DUMP_CFG.format(nsea=2, fmt='json', dom=dom, keep=keep) + 'INIT DInit\nNEXT DNext\nINVARIANT DTypeOK\n' + \
                ''.join('INVARIANT P_%s\n' % f for f in formulas) + 'INVARIANT ExportWorld\n'
            res = tlc.run('MC_MibDump', 'g.cfg', files={'g.cfg': cfg}, timeout=6000, deadlock=True)
        out.add_tlc(res, 'MibDump(MibCompile formulas)/' + label)
        worlds = [e['w'] for e in res.exports if e['w']['usage'] == 'none']
        if cap and len(worlds) > cap:
            worlds = rnd.sample(worlds, cap)
        traces, raw = [], {}
        for i, tr, second in par.pmap(_job, [(i, w, base) for i, w in enumerate(worlds)], chunk=8):
            tid = '%s-%d' % (label, i)
            raw[tid] = (worlds[i], tr)
            traces.append(mibcompile.to_trace(tid, tr))
            out.evaluations += 1
            if second is not None:        # second compile() of the same compiler, judged against the world as the first call left it
                raw[tid + '-again'] = second
                traces.append(mibcompile.to_trace(tid + '-again', second[1]))
                out.evaluations += 1
            if any(e['ans'] not in ('data', 'ok', 'absent') for e in tr['log']):
                out.distinct.add(json.dumps(worlds[i], sort_keys=True))
        verdicts, vres = mibcompile.validate(traces, 2, 2, 1)
        if vres:
            out.add_tlc(vres, 'MibCompileTrace/' + label)
        # second validation: against the answers the DISK dictates (EnvOf(world)), see RealWorldTrace.tla
        wpath = os.path.join(base, 'wtraces-%s.json' % label)
        with open(wpath, 'w') as fh:
            json.dump([{'id': t['id'], 'w': raw[t['id']][0], 'log': t['log'], 'proc': t['proc'], 'ended': t['ended']} for t in traces], fh)
        wcfg = clitools.DUMP_CFG.format(nsea=2, fmt='json', dom='Dom_usage', keep='KeepAll') + 'INIT TInit\nNEXT TNext\nINVARIANT Report\nINVARIANT DTypeOK\n' + \
            ''.join('INVARIANT P_%s\n' % f for f in formulas)
        wres = tlc.run('RealWorldTrace', 'w.cfg', files={'w.cfg': wcfg}, env={'TRACE_FILE': wpath}, workers=8, timeout=6000, deadlock=True)
        out.add_tlc(wres, 'RealWorldTrace/' + label)
        os.unlink(wpath)
        wverd = {v['id']: v for v in wres.exports}
        for t in traces:
            v = verdicts.get(t['id'])
            w, tr = raw[t['id']]
            if v is None:
                out.machinery_errors.append('no verdict for trace %s' % t['id'])
                continue
            out.traces += 1
            bad = [f for f in v['failed'] if f in formulas]
            if out.traces % 499 == 3:
                out.sample({'slice': label, 'world': w, 'trace': mibcompile.brief(tr), 'refine': v['refine'], 'failed_formulas': v['failed']})
            for f in bad:
                out.violation('formula=%s;real-components' % f,
                              '%s fails with real components for %s: [%s]' % (f, clitools.brief_world(w, 'json'), mibcompile.brief(tr)),
                              {'kind': 'realworld', 'world': w, 'observed': tr, 'verdict': v})
            wv = wverd.get(t['id'])
            if wv is None:
                out.machinery_errors.append('no world verdict for trace %s' % t['id'])
                continue
            truth = [f for f in wv['failed'] if f in TRUTH.get(prop, ())]
            for f in truth:
                out.violation('formula=%s;real-components' % f,
                              '%s fails: a real component answers against what is on disk, for %s: [%s]' % (f, clitools.brief_world(w, 'json'), mibcompile.brief(tr)),
                              {'kind': 'realworld', 'world': w, 'observed': tr, 'verdict': wv})
            if not bad and not truth and wv['refine'] != 'ok':
                out.add_drift('real components vs world model, slice=%s at=%s expected=%s got=%s procOk=%s truth=%s %s [%s]' % (
                    label, wv['at'], wv['expected'], wv['got'], wv['procOk'], wv['failed'], clitools.brief_world(w, 'json'), mibcompile.brief(tr)))
            if not bad and v['refine'] != 'ok':
                out.add_drift('real components, slice=%s at=%s expected=%s got=%s procOk=%s %s [%s]' % (
                    label, v['at'], v['expected'], v['got'], v['procOk'], clitools.brief_world(w, 'json'), mibcompile.brief(tr)))
    out.assumptions += ['real-components slices: FileReader, SmiV1CompatParser, SymtableCodeGen, JsonCodeGen, AnyFileSearcher, StubSearcher, AnyFileBorrower, FileWriter on materialised directories, observed through forwarding proxies (harness/realworld.py)']


def replay(path):
    with open(path) as fh:
        rp = json.load(fh)['replay']
    base = tlc.mkscratch('rw-replay-')
    i, tr, _second = _job((0, rp['world'], base))
    t = mibcompile.to_trace('replay', tr)
    v, _ = mibcompile.validate([t], 2, 2, 1, workers=1)
    print(mibcompile.brief(tr))
    print(json.dumps(v.get('replay'), indent=1))
