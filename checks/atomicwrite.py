"""C13: FileWriter / PyFileWriter putData() under faults and interleavings against specs/AtomicWrite.tla."""
import json
import os
import random

from harness import tlc, faultfs

FORMULAS = ['NeverPartial', 'NoTempLeft', 'RaisedIsWriterError', 'RaisedKeeps', 'FailureSurfaces', 'DryRunInert']
CFG = '''CONSTANTS
  Writers <- {writers}
  Kind = "{kind}"
  DestInits <- Both
  DryRuns = {dry}
  Dev_ShortWriteIgnored = {dev}
  Dev_UnlinkRace = FALSE
INIT {init}
NEXT {next}
'''
# tier -> [(label, writers, kind, dryruns)]
SLICES = {
    'quick': [('file-1w', 'W1', 'file', '{FALSE, TRUE}'), ('py-1w', 'W1', 'py', '{FALSE, TRUE}'),
              ('file-2w', 'W2', 'file', '{FALSE}'), ('py-2w', 'W2', 'py', '{FALSE}')],
}
SLICES['thorough'] = SLICES['quick']

NONASCII = u'-- café ☃ DESCRIPTION "über" --\n'


def texts_for(writers, variant):
    """Distinct complete texts per writer; sizes 0/1/small/4KiB/1MiB+1 and non-ASCII content by variant."""
    out = {}
    for w in writers:
        base = u'# module text of %s\nx = "%s"\n' % (w, w)
        if variant == 0:
            t = base * 3
        elif variant == 1:
            t = base + NONASCII * 5
        elif variant == 2:
            t = (base * 200)[:4096]
        elif variant == 3:
            t = base + u'y' * (1024 * 1024 + 1 - len(base))
        elif variant == 4:
            t = base + u'def broken(:\n'      # not valid Python: byte compilation reports a syntax error, which the writer ignores
        else:
            t = base
        out[w] = t
    return out


def run(out, prop, tier, seed, only_slices=None):
    rnd = random.Random(seed)
    scratch = tlc.mkscratch('aw-')
    for label, writers, kind, dry in SLICES[tier]:
        if only_slices and label not in only_slices:
            continue
        cfg = CFG.format(writers=writers, kind=kind, dry=dry, dev='FALSE', init='Init', next='Next') + \
            ''.join('INVARIANT %s\n' % f for f in FORMULAS) + 'PROPERTY ReturnedMeansStored\nINVARIANT Export\n' + \
            ('INVARIANT NoStuck\n' if (writers == 'W1' or tier != 'quick') else '')
        res = tlc.run('MC_AtomicWrite', 'g.cfg', files={'g.cfg': cfg}, timeout=3000)
        out.add_tlc(res, 'AtomicWrite/' + label)
        scs = res.exports
        out.extra.setdefault('schedules_exported', {})[label] = len(scs)
        cap = (1500 if tier == 'quick' else 40000)
        if len(scs) > cap:
            scs = rnd.sample(scs, cap)
        traces, raw = [], {}
        wl = ['w1'] if writers == 'W1' else ['w1', 'w2']
        for i, sc in enumerate(scs):
            variant = (i + seed) % 5 if len(wl) == 1 else (i + seed) % 3
            order = [h['w'] for h in sc['hist']]
            faults = {w: f for w, f in sc['fault'].items() if f['s'] != 'none'}
            # an "error" fault is transient (first call of the site) or persistent (every call): the code calls no site again
            # after an error, so the specification does not distinguish them - a retry loop in the code would
            tr = faultfs.run(scratch, kind, wl, faults, order, sc['dest0'], sc['dir0'], sc['dry'], texts_for(wl, variant),
                             persistent=((i // 2 + seed) % 2 == 1))
            tr['id'] = '%s-%d' % (label, i)
            raw[tr['id']] = (sc, tr)
            traces.append(tr)
            out.evaluations += 1
            if faults or len(wl) > 1:
                out.distinct.add(json.dumps([label, sc['fault'], order, sc['dest0'], sc['dir0']], sort_keys=True))
        path = os.path.join(scratch, 'traces.json')
        with open(path, 'w') as fh:
            json.dump(traces, fh)
        tcfg = CFG.format(writers=writers, kind=kind, dry=dry, dev='FALSE', init='TInit', next='TStep') + 'INVARIANT Report\n'
        tcfg = tcfg.replace('DestInits <- Both', 'DestInits = {"absent", "old"}').replace('Writers <- W1', 'Writers = {"w1"}').replace('Writers <- W2', 'Writers = {"w1", "w2"}')
        vres = tlc.run('AtomicWriteTrace', 't.cfg', files={'t.cfg': tcfg}, env={'TRACE_FILE': path}, workers=8, timeout=3000)
        out.add_tlc(vres, 'AtomicWriteTrace/' + label)
        verdicts = {v['id']: v for v in vres.exports}
        for tr in traces:
            v = verdicts.get(tr['id'])
            if v is None:
                out.machinery_errors.append('no verdict for %s' % tr['id'])
                continue
            out.traces += 1
            sc = raw[tr['id']][0]
            calls = ' '.join('%s.%s=%s' % (e['w'], e['call'], e['res']) for e in tr['events'])
            what = '%s writer(s)=%d faults=%s dest0=%s: %s -> final=%s dest=%s' % (
                kind, len(wl), {w: '%s/%s' % (f['s'], f['k']) for w, f in tr['faults'].items() if f['s'] != 'none'}, tr['dest0'], calls,
                {w: f[0] if f[1] in ('-', 'PySmiWriterError') else f[1] for w, f in tr['final'].items()}, tr['end']['dest']['k'])
            if out.traces % 701 == 1:
                out.sample({'schedule': what, 'verdict': v})
            if v['failed']:
                short = any(e['res'] == 'short' for e in tr['events'])
                for f in v['failed']:
                    sig = 'formula=%s;kind=%s;%s' % (f, kind, 'short-write' if short else 'other')
                    out.violation(sig, '%s fails: %s' % (f, what), {'kind': 'atomicwrite', 'scenario': sc, 'trace': tr, 'verdict': v})
            elif v['refine'] != 'ok':
                out.add_drift('%s event %s: %s' % (label, v['at'], what))
            if tr.get('stalled'):
                out.notes.append('schedule could not be followed for %s' % tr['id'])
    out.assumptions += ['faults are injected at the Python-level calls os.*/tempfile.mkstemp/py_compile.compile inside the writer modules',
                        'two writers run as threads whose system calls are serialised in the TLC-chosen order',
                        'power-loss durability (fsync) is not modelled']


def replay(path):
    with open(path) as fh:
        rp = json.load(fh)['replay']
    sc = rp['scenario']
    wl = rp['trace']['writers']
    faults = {w: f for w, f in sc['fault'].items() if f['s'] != 'none'}
    tr = faultfs.run(tlc.mkscratch('aw-'), sc['kind'], wl, faults, [h['w'] for h in sc['hist']], sc['dest0'], sc['dir0'], sc['dry'], texts_for(wl, 0))
    print(json.dumps({'events': [[e['w'], e['call'], e['res'], e['dest'], e['temps']] for e in tr['events']], 'final': tr['final'], 'end': tr['end']}, indent=1))
