"""C18: the OID -> module index (JsonCodeGen.genIndex, MibCompiler.buildIndex) against specs/OidIndex.tla."""
import json
import os
import random
import shutil

from harness import tlc

CFG = '''CONSTANTS
  Mods = {mods}
  Oids <- {oids}
  Recs <- {recs}
  MaxBuilds = {nb}
  MaxBatch = {mb}
  Dev_StringPrefix = {dev}
INIT {init}
NEXT {next}
'''
INVS = ['P_Listed', 'P_Cover', 'P_OnlyDefines', 'P_Monotone', 'P_Idempotent']
# tier -> list of (label, mods, oids, recs, builds, batch)
SLICES = {
    'quick': [('q-2x1', '{"A", "B"}', 'Oids_q', 'Recs_q', 2, 1), ('q-1x2', '{"A", "B"}', 'Oids_q', 'Recs_q', 1, 2)],
    'thorough': [('q-2x1', '{"A", "B"}', 'Oids_q', 'Recs_q', 2, 1), ('q-1x2', '{"A", "B"}', 'Oids_q', 'Recs_q', 1, 2),
                 ('t-3x1', '{"A", "B"}', 'Oids_q', 'Recs_q', 3, 1), ('t-2x1-big', '{"A", "B", "C"}', 'Oids_t', 'Recs_t', 2, 1)],
}


def oidstr(o):
    return '.'.join(str(x) for x in o)


def status_for(rec):
    from pysmi.compiler import statusCompiled
    return statusCompiled.setOptions(
        oids=set(oidstr(o) for o in rec['oids']), identity=oidstr(rec['identity']) if rec['identity'] else None,
        enterprise=oidstr(rec['enterprise']) if rec['enterprise'] else None,
        compliance=[oidstr(o) for o in rec['compliance']])


def section(d):
    return [{'oid': [int(x) for x in k.split('.')], 'mods': list(v)} for k, v in d.items()]


def project(text):
    j = json.loads(text)
    return {k: section(j.get(k, {})) for k in ('identity', 'enterprise', 'compliance', 'oids')}


def replay_history(hist, via_compiler=False, scratch=None):
    """Feed the batches to the real code; after every batch feed it once more (idempotence probe)."""
    from pysmi.codegen.jsondoc import JsonCodeGen
    events = []
    if via_compiler:
        from pysmi.compiler import MibCompiler
        from pysmi.writer.localfile import FileWriter
        d = os.path.join(scratch, 'idx')
        shutil.rmtree(d, ignore_errors=True)
        mc = MibCompiler(None, JsonCodeGen(), FileWriter(d).setOptions(suffix='.json'))

        def build(processed):
            mc.buildIndex(processed)
            with open(os.path.join(d, 'index.json')) as fh:
                return fh.read()
    else:
        gen = JsonCodeGen()
        state = {'old': ''}

        def build(processed):
            state['old'] = gen.genIndex(processed, old_index_data=state['old'])
            return state['old']
    for batch in hist:
        processed = {}
        for b in batch:
            processed[b['mod']] = status_for(b['rec'])
        if len(processed) != len(batch):      # same module twice in one call cannot be expressed as a dict
            return None
        for rep in (False, True):
            text = build(processed)
            events.append({'batch': batch, 'index': project(text), 'repeat': rep})
    return events


def run(out, prop, tier, seed, only_slices=None):
    rnd = random.Random(seed)
    scratch = tlc.mkscratch('oid-')
    for label, mods, oids, recs, nb, mb in SLICES[tier]:
        if only_slices and label not in only_slices:
            continue
        cfg = CFG.format(mods=mods, oids=oids, recs=recs, nb=nb, mb=mb, dev='FALSE', init='Init', next='Next') + \
            ''.join('INVARIANT %s\n' % i for i in INVS) + 'INVARIANT Export\nVIEW View\n'
        res = tlc.run('MC_OidIndex', 'g.cfg', files={'g.cfg': cfg}, timeout=3000)
        out.add_tlc(res, 'OidIndex/' + label)
        hists = [e['hist'] for e in res.exports]
        cap = 4000 if tier == 'quick' else 10 ** 9
        if len(hists) > cap:
            hists = rnd.sample(hists, cap)
        traces, raw = [], {}
        for i, h in enumerate(hists):
            evs = replay_history(h, via_compiler=(i % 5 == 0), scratch=scratch)
            if evs is None:
                continue
            out.evaluations += 1
            tid = '%s-%d' % (label, i)
            raw[tid] = h
            traces.append({'id': tid, 'events': evs})
            if sum(len(b['rec']['oids']) for batch in h for b in batch) >= 2:
                out.distinct.add(json.dumps(h, sort_keys=True))
        path = os.path.join(scratch, 'traces.json')
        with open(path, 'w') as fh:
            json.dump(traces, fh)
        tcfg = CFG.format(mods=mods, oids=oids, recs=recs, nb=nb, mb=mb, dev='FALSE', init='TInit', next='Step') + 'INVARIANT Report\n'
        tcfg = tcfg.replace('Oids <- ' + oids, 'Oids <- TOids').replace('Recs <- ' + recs, 'Recs <- TRecs')
        wrapper = open(os.path.join(tlc.SPECS, 'OidIndexTrace.tla')).read()
        mc = open(os.path.join(tlc.SPECS, 'MC_OidIndex.tla')).read()
        # the trace module needs the OID universe of the slice for CoverPairs
        defs = [l for l in mc.splitlines() if l.startswith(oids + ' ==')]
        wrapper = wrapper.replace('TInit ==', 'TOids == %s\nTRecs == {}\nTInit ==' % defs[0].split('==', 1)[1], 1)
        vres = tlc.run('OidIndexTrace', 't.cfg', files={'t.cfg': tcfg, 'OidIndexTrace.tla': wrapper},
                       env={'TRACE_FILE': path}, workers=8, timeout=3000)
        out.add_tlc(vres, 'OidIndexTrace/' + label)
        verdicts = {v['id']: v for v in vres.exports}
        for t in traces:
            v = verdicts.get(t['id'])
            if v is None:
                out.machinery_errors.append('no verdict for %s' % t['id'])
                continue
            out.traces += 1
            brief = ' ; '.join(','.join('%s:%s' % (b['mod'], '+'.join(oidstr(o) for o in b['rec']['oids'])) for b in batch)
                               for batch in raw[t['id']])
            if out.traces % 499 == 1:
                out.sample({'history': raw[t['id']], 'final_index': t['events'][-1]['index'], 'verdict': v})
            if v['failed']:
                for f in v['failed']:
                    strpfx = _string_prefix_witness(t) if f == 'Cover' else False
                    sig = 'formula=%s;%s' % (f, 'string-prefix' if strpfx else 'other')
                    out.violation(sig, '%s fails for build history [%s]' % (f, brief),
                                  {'kind': 'oidindex', 'history': raw[t['id']], 'events': t['events'], 'verdict': v})
            elif v['refine'] != 'ok':
                out.add_drift('index differs from MergeBatch at build %s of [%s]' % (v['at'], brief))
    if not only_slices or 'e2e' in only_slices:
        # end to end: the index the real mibdump stores for materialised worlds (real parser, generator, compiler, writer),
        # judged by IndexOnlyDefines / IndexCovers of MibDump.tla against the OIDs the fixture modules define
        from checks import clitools
        clitools.run_dump(out, prop, tier, seed, only_slices=['report-json', 'stub-json'], only_formulas=('IndexOnlyDefines', 'IndexCovers'))
    out.assumptions += ['TLC + Json module trusted', 'per-module summaries are handed to genIndex as MibStatus objects built by the harness',
                        'every 5th history goes through MibCompiler.buildIndex with a real FileWriter (index read back from disk)']


def _string_prefix_witness(t):
    """Is the lost cover explained by a kept entry that is a string prefix but not a component-wise prefix?"""
    defs = {}
    for e in t['events']:
        for b in e['batch']:
            defs.setdefault(b['mod'], set()).update(tuple(o) for o in b['rec']['oids'])
        kept = {tuple(s['oid']): set(s['mods']) for s in e['index']['oids']}
        for m, os_ in defs.items():
            for o in os_:
                if not any(o[:len(p)] == p and m in ms for p, ms in kept.items()):
                    so = oidstr(o)
                    if any(so.startswith(oidstr(p)) and o[:len(p)] != p and m in ms for p, ms in kept.items()):
                        return True
    return False


def replay(path):
    with open(path) as fh:
        rp = json.load(fh)['replay']
    evs = replay_history(rp['history'], scratch=tlc.mkscratch('oid-'))
    print(json.dumps(evs[-1]['index'], indent=1))
