"""C16: SMIv1 module vs its SMIv2 transliteration (specs/V1V2.tla), and the import rewrite table."""
import json
import os
import random

from harness import tlc, mibs, render, par

V2TYPE = {'INTEGER': 'Integer32', 'Counter': 'Counter32', 'Gauge': 'Gauge32', 'NetworkAddress': 'IpAddress'}
V2STATUS = {'mandatory': 'current', 'optional': 'obsolete'}
V1MODS = ('RFC1155-SMI', 'RFC1065-SMI', 'RFC-1212', 'RFC-1215', 'RFC1213-MIB', 'RFC1158-MIB')
SMI_TYPES_V1 = {'Counter', 'Gauge', 'NetworkAddress', 'IpAddress', 'TimeTicks', 'Opaque'}
SMI_TYPES_V2 = {'Integer32', 'Counter32', 'Gauge32', 'IpAddress', 'TimeTicks', 'Opaque'}


# a DEFVAL literal in the notation of each SMIv1 type
DEFVAL_FOR = {'INTEGER': '5', 'Counter': '5', 'Gauge': '5', 'TimeTicks': '5', 'NetworkAddress': "'c0a80001'H", 'IpAddress': "'c0a80001'H",
              'OCTET STRING': '"ab"', 'Opaque': "'6162'H", 'DisplayString': '"ab"', 'OBJECT IDENTIFIER': 'pairRoot'}


def build(sc, v1):
    home = sc['home']
    imports = {}

    def need(frm, sym):
        imports.setdefault(frm, [])
        if sym not in imports[frm]:
            imports[frm].append(sym)
    smi = home if v1 else 'SNMPv2-SMI'
    need(smi, 'enterprises')
    need('RFC-1212' if v1 else 'SNMPv2-SMI', 'OBJECT-TYPE')
    decls = [{'k': 'value', 'name': 'pairRoot', 'oid': {'parent': 'enterprises', 'arcs': [[None, 900]]}}]

    def typ(t):
        tt = t if v1 else V2TYPE.get(t, t)
        if tt == 'DisplayString':
            need('RFC1213-MIB' if v1 else 'SNMPv2-TC', 'DisplayString')
        elif tt in (SMI_TYPES_V1 if v1 else SMI_TYPES_V2):
            need(smi, tt)
        return tt

    def st(s):
        return s if v1 else V2STATUS.get(s, s)
    names = []
    for k, o in enumerate(sc['objs'], 1):
        n = 'pairObj%d' % k
        names.append(n)
        d = {'k': 'objecttype', 'name': n, 'syntax': {'base': typ(o['type'])}, 'access': o['access'], 'status': st(o['status']),
             'description': 'object %d' % k, 'oid': {'parent': 'pairRoot', 'arcs': [[None, k]]}}
        if o.get('defval'):
            d['defval'] = DEFVAL_FOR[o['type']]
        decls.append(d)
    typeindex = sc['idxtype'].startswith('TYPE:')
    if sc['table']:
        it = typ(sc['idxtype'].split(':')[-1])
        decls.append({'k': 'objecttype', 'name': 'pairTable', 'syntax': {'seqof': 'PairEntry'}, 'access': 'not-accessible', 'status': st('mandatory'),
                      'description': 't', 'oid': {'parent': 'pairRoot', 'arcs': [[None, 10]]}})
        decls.append({'k': 'objecttype', 'name': 'pairEntry', 'syntax': {'base': 'PairEntry'}, 'access': 'not-accessible', 'status': st('mandatory'),
                      'description': 'e', 'index': [[False, 'INTEGER' if (typeindex and v1) else 'pairIdx']], 'oid': {'parent': 'pairTable', 'arcs': [[None, 1]]}})
        decls.append({'k': 'sequence', 'name': 'PairEntry', 'members': [['pairIdx', it], ['pairCol', typ('INTEGER')]]})
        decls.append({'k': 'objecttype', 'name': 'pairIdx', 'syntax': {'base': it}, 'access': 'read-only', 'status': st('mandatory'), 'description': 'i',
                      'oid': {'parent': 'pairEntry', 'arcs': [[None, 1]]}})
        decls.append({'k': 'objecttype', 'name': 'pairCol', 'syntax': {'base': typ('INTEGER')}, 'access': 'read-write', 'status': st('mandatory'), 'description': 'c',
                      'oid': {'parent': 'pairEntry', 'arcs': [[None, 2]]}})
        names += ['pairIdx', 'pairCol']
    tv = names[:sc['trapvars']]
    ent = 'pairRoot'
    if sc.get('entzero'):
        # the trap's enterprise is a node whose own OID ends in 0
        ent = 'pairTraps'
        decls.append({'k': 'value', 'name': 'pairTraps', 'oid': {'parent': 'pairRoot', 'arcs': [[None, 0]]}})
    if v1:
        need('RFC-1215', 'TRAP-TYPE')
        decls.append({'k': 'traptype', 'name': 'pairTrap', 'enterprise': ent, 'objects': tv, 'description': 'trap', 'number': 5})
    else:
        need('SNMPv2-SMI', 'NOTIFICATION-TYPE')
        decls.append({'k': 'notificationtype', 'name': 'pairTrap', 'objects': tv, 'description': 'trap',
                      'oid': {'parent': ent, 'arcs': [[None, 0], [None, 5]]}})
    return {'name': 'PAIR-MIB', 'imports': sorted(imports.items()), 'decls': decls}


def oidseq(s):
    return [int(x) for x in s.split('.')] if s else []


def project(text, sc, backend_py, scratch, v1):
    obs = {'status': '?', 'error': '', 'syms': [], 'pyclass': [], 'access': [], 'defaults': [], 'trap': {'cls': '-', 'oid': [], 'refs': []}, 'imports': []}
    pj = mibs.Pipeline({'PAIR-MIB': text}, backend='json')
    rj = pj.compile('PAIR-MIB')
    st = rj.get('PAIR-MIB')
    obs['status'] = str(st)
    obs['error'] = str(getattr(st, 'error', ''))[:250]
    if obs['status'] != 'compiled':
        return obs
    doc, dups, err = render.observe_json(pj.written['PAIR-MIB'])
    for key, e in sorted(doc.items()):
        if key in ('imports', 'meta') or not isinstance(e, dict):
            continue
        refs = [[x.get('module'), x.get('object')] for x in e.get('objects', [])] + [[x.get('module'), x.get('object'), bool(x.get('implied'))] for x in e.get('indices', [])]
        obs['syms'].append({'name': key, 'oid': oidseq(e.get('oid', '')), 'cls': e.get('class', '-'), 'nodetype': e.get('nodetype', '-'),
                            'status': e.get('status', '-'), 'refs': refs})
    for k in range(1, len(sc['objs']) + 1):
        obs['access'].append(doc.get('pairObj%d' % k, {}).get('maxaccess', '-'))
        dv = doc.get('pairObj%d' % k, {}).get('default', {}).get('default')
        obs['defaults'].append('-' if dv is None else json.dumps(dv, sort_keys=True))
    t = doc.get('pairTrap', {})
    obs['trap'] = {'cls': t.get('class', '-'), 'oid': oidseq(t.get('oid', '')), 'refs': [[x.get('module'), x.get('object')] for x in t.get('objects', [])]}
    obs['imports'] = [m for m, syms in doc.get('imports', {}).items() if isinstance(syms, list)]
    if backend_py:
        pp = mibs.Pipeline({'PAIR-MIB': text}, backend='pysnmp')
        rp = pp.compile('PAIR-MIB')
        if str(rp.get('PAIR-MIB')) != 'compiled':
            obs['status'] = 'py-' + str(rp.get('PAIR-MIB'))
            obs['error'] = str(getattr(rp.get('PAIR-MIB'), 'error', ''))[:250]
            return obs
        syms, errs = render.load_pysnmp(pp.written, os.path.join(scratch, 'w%d%s' % (os.getpid(), 'a' if v1 else 'b')))
        if errs:
            obs['status'] = 'py-loaderror'
            obs['error'] = ' '.join(errs.values())[-250:]
            return obs
        for k in range(1, len(sc['objs']) + 1):
            o = syms['PAIR-MIB'].get('pairObj%d' % k)
            cls = type(o.getSyntax())
            name = cls.__name__
            # a generated _X_Type alias keeps the parent class name
            obs['pyclass'].append(name if not name.startswith('_') else cls.__mro__[1].__name__)
    return obs


def replay_pair(args):
    sc, salt, with_py, scratch = args
    t1 = render.render_module(build(sc, True), v1=True)
    t2 = render.render_module(build(sc, False), v1=False)
    return {'kind': 'pair', 'sc': sc, 'pysnmp': bool(with_py), 'v1': project(t1, sc, with_py, scratch, True), 'v2': project(t2, sc, with_py, scratch, False),
            'texts': t1 + '\n' + t2, 'newmod': '-', 'shipped': False, 'exported': False}


def pysnmp_exports():
    """Reference: what the SMIv2 modules shipped with the installed pysnmp export (module -> set of names)."""
    from pysnmp.smi import builder
    mb = builder.MibBuilder()
    out = {}
    import pysnmp.smi.mibs as pkg
    d = os.path.dirname(pkg.__file__)
    for f in sorted(os.listdir(d)):
        if f.endswith('.py') and f[0] != '_' and f[:-3] not in V1MODS:
            m = f[:-3]
            try:
                (mb.load_modules if hasattr(mb, 'load_modules') else mb.loadModules)(m)
                out[m] = set(mb.mibSymbols.get(m, {}))
            except Exception:
                pass
    return out


def rewrite_rows():
    """One tiny module per (SMIv1 module, symbol) of the rewrite domain; where does the symbol come from in the output?"""
    from pysmi.codegen.base import AbstractCodeGen
    ref = pysnmp_exports()
    rows = []
    pb = mibs.Pipeline({'ROW-MIB': 'ROW-MIB DEFINITIONS ::= BEGIN\nrowRoot OBJECT IDENTIFIER ::= { iso 99 }\nEND\n'}, backend='json')
    pb.compile('ROW-MIB', ignoreErrors=True, noDeps=True)
    baseline = {m: ss for m, ss in json.loads(pb.written['ROW-MIB']).get('imports', {}).items() if isinstance(ss, list)}
    for v1mod, table in sorted(AbstractCodeGen.convertImportv2.items()):
        for sym in sorted(table):
            text = 'ROW-MIB DEFINITIONS ::= BEGIN\nIMPORTS %s FROM %s;\nrowRoot OBJECT IDENTIFIER ::= { iso 99 }\nEND\n' % (sym, v1mod)
            p = mibs.Pipeline({'ROW-MIB': text}, backend='json')
            res = p.compile('ROW-MIB', ignoreErrors=True, noDeps=True)
            doc = json.loads(p.written['ROW-MIB']) if 'ROW-MIB' in p.written else {}
            imps = {m: s for m, s in doc.get('imports', {}).items() if isinstance(s, list)}
            still = [m for m in imps if m in V1MODS and sym in imps[m]]
            # what this import added compared with a module that imports nothing
            added = [(m, x) for m, ss in imps.items() for x in ss if x not in baseline.get(m, [])]
            macro = {'OBJECT-TYPE', 'TRAP-TYPE', 'MODULE-IDENTITY', 'NOTIFICATION-TYPE'}
            if still:
                newmod, newsym, shipped, exported = still[0], sym, False, False
            elif added:
                newmod, newsym = added[0]
                shipped = newmod in ref
                exported = shipped and (newsym in ref[newmod] or newsym.replace('-', '_') in ref[newmod] or newsym in macro)
            else:
                # rewritten to something every module imports anyway: nothing to look up
                newmod, newsym, shipped, exported = 'SNMPv2-SMI', '?', False, False
            rows.append({'kind': 'row', 'id': 'row:%s:%s' % (v1mod, sym), 'v1mod': v1mod, 'sym': sym, 'newmod': newmod, 'newsym': newsym,
                         'shipped': bool(shipped), 'exported': bool(exported), 'status': str(res.get('ROW-MIB'))})
    return rows


def run(out, prop, tier, seed, **kw):
    rnd = random.Random(seed)
    scratch = tlc.mkscratch('vv-')
    res = tlc.run('MC_V1V2', 'g.cfg', files={'g.cfg': 'INIT Init\nNEXT Next\nINVARIANT Export\n'}, timeout=3000)
    out.add_tlc(res, 'V1V2/pairs')
    scs = res.exports
    out.extra['scenarios_exported'] = len(scs)
    rnd.shuffle(scs)
    n, npy = (700, 160) if tier == 'quick' else (20000, 3000)
    results = par.pmap(replay_pair, [(sc, seed + i, i < npy, scratch) for i, sc in enumerate(scs[:n])], chunk=4)
    traces = []
    for i, r in enumerate(results):
        r['id'] = 'p%d' % i
        traces.append(r)
        out.evaluations += 1
        out.distinct.add(json.dumps(r['sc'], sort_keys=True))
    empty = {'status': '-', 'error': '', 'syms': [], 'pyclass': [], 'access': [], 'defaults': [], 'trap': {'cls': '-', 'oid': [], 'refs': []}, 'imports': []}
    rows = rewrite_rows()
    for r in rows:
        r.update(sc=[], pysnmp=False, v1=empty, v2=empty, texts='')
        traces.append(r)
        out.evaluations += 1
    out.extra['rewrite_rows'] = len(rows)
    out.extra['rewrite_rows_verifiable_against_pysnmp'] = sum(1 for r in rows if r['shipped'])
    path = os.path.join(scratch, 'traces.json')
    with open(path, 'w') as fh:
        json.dump([{k: v for k, v in t.items() if k != 'texts'} for t in traces], fh)
    vres = tlc.run('V1V2Trace', 't.cfg', files={'t.cfg': 'INIT TInit\nNEXT TNext\nINVARIANT Report\n'}, env={'TRACE_FILE': path}, workers=8, timeout=3000)
    out.add_tlc(vres, 'V1V2Trace')
    verdicts = {v['id']: v for v in vres.exports}
    for t in traces:
        v = verdicts.get(t['id'])
        if v is None:
            out.machinery_errors.append('no verdict for %s' % t['id'])
            continue
        out.traces += 1
        if out.traces % 233 == 1:
            out.sample({'scenario': t['sc'] or [t.get('v1mod'), t.get('sym'), t.get('newmod'), t.get('newsym')], 'texts': t['texts'][:1500], 'failed': v['failed']})
        for f in v['failed']:
            if t['kind'] == 'row':
                out.violation('formula=%s;row;%s' % (f, t['v1mod']), '%s fails: %s::%s is imported in the output from %s::%s (shipped by pysnmp: %s, exported there: %s)' % (
                    f, t['v1mod'], t['sym'], t['newmod'], t['newsym'], t['shipped'], t['exported']), {'kind': 'row', 'row': {k: t[k] for k in ('v1mod', 'sym', 'newmod', 'newsym', 'shipped', 'exported')}})
            else:
                out.violation('formula=%s;%s' % (f, classify(t)), '%s fails (v1: %s %s | v2: %s %s) for\n%s' % (
                    f, t['v1']['status'], t['v1']['error'][:150], t['v2']['status'], t['v2']['error'][:150], t['texts'][:1800]),
                    {'kind': 'pair', 'sc': t['sc'], 'texts': t['texts'], 'v1': t['v1'], 'v2': t['v2']})
    out.assumptions += ['the SMIv2 text is produced by the transliteration rules of V1V2.tla applied by the renderer (types, MAX-ACCESS, status map, NOTIFICATION-TYPE at enterprise.0.n)',
                        'the domain of the import rewrite check is the key set of the rewrite table; the oracle for the new home is the export list of the SMIv2 modules shipped with the installed pysnmp (unverifiable rows are counted, not judged)']


def classify(t):
    e = t['v1']['error'] + t['v2']['error']
    if t['sc'].get('table') and t['sc'].get('idxtype') == 'TYPE:INTEGER' and 'pysmiFakeCol' in e:
        return 'index-integer'
    return 'other'


def replay(path):
    with open(path) as fh:
        rp = json.load(fh)['replay']
    if rp['kind'] == 'row':
        print(rp)
        return
    r = replay_pair((rp['sc'], 0, True, tlc.mkscratch('vv-')))
    print(r['texts'])
    print(json.dumps({'v1': r['v1'], 'v2': r['v2']}, indent=1)[:4000])
