"""C20 (second half): scripts/mibcopy.py against specs/MibCopy.tla - see checks/clitools.py."""
import json
import os
import random
import shutil

from harness import tlc, cli, mibs, par

CFG = '''CONSTANTS
  UsageChoices <- {us}
  FileSets <- {fs}
  InitDests <- {ds}
  Names <- Names2
  Dev_NoRevNeverCopied = FALSE
  Dev_GreaterOnly = FALSE
  Dev_RevisionLeak = FALSE
'''
INVS = ['TypeOK', 'P_LatestWins', 'P_OthersUntouched', 'P_Accounting', 'P_UsageLeavesDestination', 'P_ExitZero']
SLICES = {'quick': [('copy-q', 'FileSets_q', 'Dests_q', 1500), ('copy-usage', 'FileSets_u', 'Dests_q', None)],
          'thorough': [('copy-q', 'FileSets_q', 'Dests_q', None), ('copy-usage', 'FileSets_u', 'Dests_q', None), ('copy-t', 'FileSets_t', 'Dests_t', 6000)]}
REVS = {1: '200101010000Z', 2: '200201010000Z', 3: '200301010000Z'}


def mib_text(mod, rev, ident, variant=0):
    if mod == '-':
        return '-- id %d\nNOT-A-MIB DEFINITIONS ::= BEGIN ::= ::= END\n' % ident
    if not rev and variant % 2 == 0:
        # "no revision" has two spellings: a MODULE-IDENTITY without REVISION clause (below) and, here, no MODULE-IDENTITY at all
        return ('-- id %d\n%s DEFINITIONS ::= BEGIN\nIMPORTS enterprises FROM SNMPv2-SMI;\ntheId OBJECT IDENTIFIER ::= { enterprises %d }\nEND\n'
                % (ident, mod, 4800 + ident))
    t = '-- id %d\n%s DEFINITIONS ::= BEGIN\nIMPORTS enterprises, MODULE-IDENTITY FROM SNMPv2-SMI;\n' % (ident, mod)
    t += 'theId MODULE-IDENTITY LAST-UPDATED "200401010000Z" ORGANIZATION "o" CONTACT-INFO "c" DESCRIPTION "copy %d"\n' % ident
    if rev:
        t += '    REVISION "%s" DESCRIPTION "r%d"\n' % (REVS[rev], rev)
        if variant % 2 and rev > 1:      # an older revision listed after the latest one, as SMIv2 modules do
            t += '    REVISION "%s" DESCRIPTION "older"\n' % REVS[rev - 1]
    t += '    ::= { enterprises %d }\nEND\n' % (4800 + ident)
    return t


def ident_of(path):
    try:
        with open(path) as fh:
            first = fh.readline()
        return int(first.split('id', 1)[1]) if first.startswith('-- id') else -1
    except (OSError, ValueError, IndexError):
        return -1


def observe(sc, root, mode='files', how='inproc'):
    """sc: {files:[{mod,rev,id}], dest0:{name:{mod,rev,id}}, order:[ids]} -> (observation, order as reported, extra)"""
    base, src, dst = (os.path.join(root, x) for x in ('base', 'src', 'dst'))
    for d in (base, src, dst):
        os.makedirs(d)
    for n in ('SNMPv2-SMI', 'SNMPv2-TC', 'SNMPv2-CONF'):
        with open(os.path.join(base, n + '.txt'), 'w') as fh:
            fh.write(mibs.BASE[n])
    byid = {f['id']: f for f in sc['files']}
    names = {}
    for f in sc['files']:
        # file names unlike the module names; one of them spelled like the module to cover that case too
        fn = ('%s.txt' % f['mod']) if (f['id'] == 2 and f['mod'] != '-') else 'file%d.mib' % f['id']
        names[f['id']] = fn
        with open(os.path.join(src, fn), 'w') as fh:
            fh.write(mib_text(f['mod'], f['rev'], f['id'], variant=f['id']))
    for n, c in sc['dest0'].items():
        if c['mod'] != '-':
            byid[c['id']] = c
            with open(os.path.join(dst, n), 'w') as fh:
                fh.write(mib_text(c['mod'], c['rev'], c['id']))
    argv = ['--mib-source=file://' + base]
    usage = sc.get('usage', 'none')
    if usage != 'none':
        # the source files are named in the order the specification would have visited them, had it visited them
        mode, sc = 'files', dict(sc, order=[f['id'] for f in sc['files']])
    if mode == 'files':
        argv += [os.path.join(src, names[i]) for i in sc['order']]
    else:
        argv.append(src)
    argv.append(dst)
    if usage == 'help':
        argv.insert(0, '--help')
    elif usage == 'badOpt':
        argv.insert(0, '--no-such-option')
    elif usage == 'oneArg':
        argv = argv[:1] + [dst]
    elif usage == 'dstIsFile':
        marker = os.path.join(root, 'plainfile')
        with open(marker, 'w') as fh:
            fh.write('x')
        argv[-1] = marker
    r = cli.run_inproc('mibcopy', argv, cwd=root) if how == 'inproc' else cli.run_subproc('mibcopy', argv, cwd=root)
    lines, totals = cli.parse_copy_report(r['stderr'])
    rev = {v: k for k, v in names.items()}
    order, copied, notcopied, failed_ids = [], [], [], []
    for ln in lines:
        i = rev.get(os.path.basename(ln['path']), -1)
        order.append(i)
        (copied if ln['what'] == 'COPIED' else notcopied if ln['what'] == 'NOT COPIED' else failed_ids).append(i)
    dest, strays = {}, []
    present = sorted(os.listdir(dst))
    for n in ('AA-MIB', 'BB-MIB'):
        i = ident_of(os.path.join(dst, n)) if n in present else 0
        c = byid.get(i)
        dest[n] = {'mod': c['mod'], 'rev': c['rev'], 'id': c['id']} if c else {'mod': '-', 'rev': 0, 'id': 0 if i == 0 else -1}
    strays = [p for p in present if p not in ('AA-MIB', 'BB-MIB')]
    obs = {'dest': dest, 'copied': copied, 'notcopied': notcopied, 'failed': totals[2] if totals else len(failed_ids),
           'seen': totals[0] if totals else len(lines), 'totals': totals is not None, 'strays': strays, 'exit': r['exit']}
    return obs, order, {'argv': argv, 'stderr_tail': r['stderr'][-500:], 'escaped': r.get('escaped')}


def _job(job):
    i, sc, base, mode = job
    root = os.path.join(base, 'c%d' % i)
    os.makedirs(root)
    try:
        obs, order, extra = observe(sc, root, mode)
        sub = None
        if i % 50 == 0:
            root2 = root + 's'
            os.makedirs(root2)
            sub = observe(sc, root2, mode, how='subproc')[0]
            shutil.rmtree(root2, ignore_errors=True)
        return i, obs, order, extra, sub
    finally:
        shutil.rmtree(root, ignore_errors=True)


def brief(sc, order):
    f = {x['id']: x for x in sc['files']}
    return 'files [%s] into {%s}' % (
        ', '.join('%s r%d' % (f[i]['mod'], f[i]['rev']) if i in f else '?' for i in order),
        ', '.join('%s r%d' % (n, c['rev']) for n, c in sorted(sc['dest0'].items()) if c['mod'] != '-'))


def run(out, prop, tier, seed, only_slices=None):
    rnd = random.Random(seed + 1)
    base = tlc.mkscratch('copy-')
    for label, fs, ds, cap in SLICES[tier]:
        if only_slices and label not in only_slices:
            continue
        cfg = CFG.format(fs=fs, ds=ds, us='AllUsage' if label == 'copy-usage' else 'OnlyNone')
        mc = cfg + 'INIT Init\nNEXT Next\n' + ''.join('INVARIANT %s\n' % i for i in INVS) + 'PROPERTY P_Monotone\nINVARIANT Export\n'
        res = tlc.run('MC_MibCopy', 'g.cfg', files={'g.cfg': mc}, timeout=3000)
        out.add_tlc(res, 'MibCopy/' + label)
        scen = res.exports
        if cap and len(scen) > cap:
            scen = rnd.sample(scen, cap)
        # every 7th behaviour hands the source DIRECTORY to the script: the order is then os.walk()'s
        jobs = [(i, s, base, 'dir' if i % 7 == 3 else 'files') for i, s in enumerate(scen)]
        traces, info = [], {}
        for i, obs, order, extra, sub in par.pmap(_job, jobs, chunk=8):
            sc = scen[i]
            tid = '%s-%d' % (label, i)
            out.evaluations += 1
            if len({f['mod'] for f in sc['files']}) < len(sc['files']):
                out.distinct.add(json.dumps([sc['files'], sc['dest0'], order], sort_keys=True))
            traces.append({'id': tid, 'usage': sc.get('usage', 'none'), 'files': sc['files'], 'dest0': sc['dest0'], 'order': order, 'obs': obs})
            info[tid] = (sc, obs, order, extra)
            if sub is not None and any(sub[k] != obs[k] for k in ('dest', 'failed', 'seen', 'strays', 'exit')):
                out.machinery_errors.append('in-process and subprocess runs of mibcopy disagree for %s' % brief(sc, order))
        path = os.path.join(base, 'traces-%s.json' % label)
        with open(path, 'w') as fh:
            json.dump(traces, fh)
        vres = tlc.run('MibCopyTrace', 't.cfg', files={'t.cfg': cfg + 'INIT TInit\nNEXT TNext\nINVARIANT Report\n'},
                       env={'TRACE_FILE': path}, workers=8, timeout=3000)
        out.add_tlc(vres, 'MibCopyTrace/' + label)
        os.unlink(path)
        verdicts = {v['id']: v for v in vres.exports}
        for t in traces:
            sc, obs, order, extra = info[t['id']]
            v = verdicts.get(t['id'])
            if v is None:
                # the observed order is not a permutation of the files: the trace cannot be replayed at all
                v = {'id': t['id'], 'failed': ['Accounting'], 'drift': 'order', 'mdest': {}}
            out.traces += 1
            if out.traces % 397 == 2:
                out.sample({'tool': 'mibcopy', 'scenario': sc, 'order': order, 'observed': obs, 'verdict': v})
            rp = {'kind': 'mibcopy', 'scenario': sc, 'order': order, 'observed': obs, 'argv': extra['argv'],
                  'stderr_tail': extra['stderr_tail'], 'verdict': v}
            for f in v['failed']:
                out.violation('formula=%s;mibcopy;%s' % (f, (extra.get('escaped') or 'no-exception').split(':')[0]),
                              'mibcopy: %s fails for %s' % (f, brief(sc, order)), rp)
            if not v['failed'] and v['drift'] != 'ok':
                out.add_drift('mibcopy %s differs from MibCopy.tla for %s: observed %s, model %s' % (
                    v['drift'], brief(sc, order), {n: c['id'] for n, c in obs['dest'].items()}, v['mdest']))
    if not only_slices:
        lres = tlc.run('MC_MibCopy', 'live.cfg', files={'live.cfg': CFG.format(fs='FileSets_q', ds='Dests_q', us='OnlyNone') + 'SPECIFICATION Spec\nPROPERTY Termination\n'}, timeout=3000)
        out.add_tlc(lres, 'MibCopy/liveness(Termination under WF)')
    if tier != 'quick' and not only_slices:
        # unbounded argument: inductive invariant of the visiting loop discharged by Apalache (any number of files / revisions)
        from harness import apalache
        for init, inv, length in (('RealInit', 'IndInv', 0), ('IndInit', 'IndInv', 1), ('IndInit', 'Goal', 0)):
            r = apalache.check('MibCopyInd', init, inv, length)
            out.extra.setdefault('apalache', []).append(r)
            if not r['ok']:
                out.machinery_errors.append('Apalache obligation not discharged: %s (%s) %s' % (r['obligation'], r['outcome'], r['tail']))
    out.assumptions += ['the visiting order is the order of the COPIED / NOT COPIED / FAILED lines of the script',
                        'a copy is identified by the "-- id N" comment on its first line',
                        "a file's revision is its first REVISION clause (SMIv2 lists the latest first); files listing revisions in ascending order are out of scope"]


def replay(path):
    with open(path) as fh:
        rp = json.load(fh)['replay']
    sc = dict(rp['scenario'])
    sc['order'] = rp['order']
    obs, order, extra = observe(sc, tlc.mkscratch('copy-replay-'))
    print(json.dumps({'argv': extra['argv'], 'order': order, 'observed': obs, 'stderr_tail': extra['stderr_tail']}, indent=1))
