"""C17: grammar relaxations only add accepted inputs and mean what they say (specs/Dialects.tla on top of Syntax.tla)."""
import json
import os
import random

from harness import tlc, par
from checks import syntax

CFG = 'CONSTANTS\n  MaxDecls = 1\n  MaxMods = 1\n  ShapePool <- Reps\nINIT %s\nNEXT %s\n'
_parsers = {}


def parser(opts):
    key = tuple(sorted(opts))
    if key not in _parsers:
        from pysmi.parser.smi import parserFactory
        try:
            _parsers[key] = parserFactory(**{o: True for o in opts})()
        except Exception as exc:
            _parsers[key] = exc
    return _parsers[key]


def parse(opts, text):
    from pysmi import error
    p = parser(opts)
    if isinstance(p, Exception):
        return {'built': False, 'ok': False, 'pkgerr': isinstance(p, error.PySmiError), 'tree': [], 'err': '%s: %s' % (type(p).__name__, p)}
    try:
        return {'built': True, 'ok': True, 'pkgerr': False, 'tree': syntax.norm(p.parse(text)), 'err': ''}
    except error.PySmiError as exc:
        return {'built': True, 'ok': False, 'pkgerr': True, 'tree': [], 'err': '%s: %s' % (type(exc).__name__, exc)}
    except Exception as exc:
        return {'built': True, 'ok': False, 'pkgerr': False, 'tree': [], 'err': 'FOREIGN %s: %s' % (type(exc).__name__, exc)}


def text_of(toks, salt):
    fills = [('SP', 'LF', 'TAB', 'CMTLF')[(i + salt) % 4] for i in range(len(toks) - 1)]
    return syntax.render(toks, fills, salt)


def replay_one(args):
    sc, corpus, salt = args
    S = sc['S']
    tr = dict(sc)
    tr['texts'] = []
    tr['obs'] = {'ok': False, 'pkgerr': False, 'tree': [], 'hostok': False, 'hosttree': [], 'err': ''}
    tr['trueRejectedWithPkgError'] = tr['falseAccepted'] = True
    r0 = parse(S, 'E DEFINITIONS ::= BEGIN END')
    tr['built'] = r0['built']
    if sc['k'] in ('edit', 'writable'):
        r = parse(S, text_of(sc['toks'], salt))
        tr['obs'].update(ok=r['ok'], pkgerr=r['pkgerr'], tree=r['tree'], err=r['err'])
        if sc['k'] == 'edit':
            h = parse(S, text_of(sc['hosttoks'], salt))
            tr['obs'].update(hostok=h['ok'], hosttree=h['tree'])
    elif sc['k'] == 'step':
        S2 = S + [sc['o']]
        for toks in corpus:
            text = text_of(toks, salt)
            a, b = parse(S, text), parse(S2, text)
            tr['texts'].append({'acc': a['ok'], 'acc2': b['ok'], 'tree': json.dumps(a['tree']), 'tree2': json.dumps(b['tree']),
                                'usesReserved': any(w in toks for w in sc['reserved']), 'text': text[:400]})
    for k in ('opt', 'host', 'toks', 'hosttoks', 'needs', 'find', 'repl'):
        tr.setdefault(k, [] if k != 'opt' else '-')
    tr.setdefault('rejectedWithout', False)
    return tr


def run(out, prop, tier, seed, **kw):
    rnd = random.Random(seed)
    scratch = tlc.mkscratch('di-')
    res = tlc.run('MC_Dialects', 'g.cfg', files={'g.cfg': CFG % ('DInit', 'DNext') + 'INVARIANT Export\n'}, timeout=3000)
    out.add_tlc(res, 'Dialects/all-buildable-subsets')
    items = res.exports
    out.extra['items_exported'] = len(items)
    # corpus of well-formed texts for the monotonicity steps: one file per representative declaration, plus the hosts of the tables
    cres = tlc.run('MC_Syntax', 'c.cfg', files={'c.cfg': syntax.CFG % (1, 1, 'Reps', 'Init', 'Next') + 'INVARIANT Export\n'}, timeout=3000)
    out.add_tlc(cres, 'Syntax/corpus-for-steps')
    corpus = [e['toks'] for e in cres.exports if e['offset'] == 0]
    corpus += [e['toks'] for e in items if e['k'] == 'writable' and len(e['S']) == 9][:4] + [e['hosttoks'] for e in items if e['k'] == 'edit' and len(e['S']) == 9][:9]
    rnd.shuffle(corpus)
    corpus = corpus[:20] if tier == 'quick' else corpus[:60]
    items.sort(key=lambda e: sorted(e['S']))
    results = par.pmap(replay_one, [(e, corpus, seed + i) for i, e in enumerate(items)], chunk=24)
    # unknown relaxation names
    from pysmi.parser.smi import parserFactory
    from pysmi import error
    unk = {'k': 'unknown', 'S': [], 'built': True, 'opt': '-', 'host': [], 'toks': [], 'hosttoks': [], 'needs': [], 'find': [], 'repl': [], 'rejectedWithout': False, 'texts': [],
           'obs': {'ok': False, 'pkgerr': False, 'tree': [], 'hostok': False, 'hosttree': [], 'err': ''}, 'trueRejectedWithPkgError': True, 'falseAccepted': True}
    for name in ('bogusOption', 'supportSmiv1keywords', 'commaAtTheEndOfImports', ''):
        try:
            parserFactory(**{name: True})
            unk['trueRejectedWithPkgError'] = False
        except error.PySmiError:
            pass
        except Exception:
            unk['trueRejectedWithPkgError'] = False
        try:
            parserFactory(**{name: False})
        except Exception:
            unk['falseAccepted'] = False
    results.append(unk)
    traces = []
    for i, r in enumerate(results):
        r['id'] = 'd%d' % i
        traces.append(r)
        out.evaluations += 1 + len(r['texts'])
        out.distinct.add(json.dumps([r['S'], r['k'], r.get('opt'), r.get('o'), r['toks']]))
    path = os.path.join(scratch, 'traces.json')
    with open(path, 'w') as fh:
        json.dump(traces, fh)
    vres = tlc.run('DialectsTrace', 't.cfg', files={'t.cfg': CFG % ('TInit', 'TNext') + 'INVARIANT Report\n'}, env={'TRACE_FILE': path}, workers=8, timeout=3000)
    out.add_tlc(vres, 'DialectsTrace')
    verdicts = {v['id']: v for v in vres.exports}
    for t in traces:
        v = verdicts.get(t['id'])
        if v is None:
            out.machinery_errors.append('no verdict for %s' % t['id'])
            continue
        out.traces += 1
        if out.traces % 301 == 1:
            out.sample({'dialect': t['S'], 'item': t['k'], 'option': t.get('opt', t.get('o')), 'text': ' '.join(t['toks'])[:300], 'outcome': {k: t['obs'][k] for k in ('ok', 'pkgerr', 'err')}, 'failed': v['failed']})
        for f in v['failed']:
            bad = [x['text'] for x in t['texts'] if x['acc'] and not x['usesReserved'] and (not x['acc2'] or x['tree'] != x['tree2'])][:1]
            out.violation('formula=%s;%s;%s' % (f, t['k'], t.get('opt') if t['k'] != 'step' else t.get('o')),
                          '%s fails: dialect %s, %s %s: %s %s' % (f, t['S'], t['k'], t.get('opt') if t['k'] != 'step' else '+' + t['o'], ' '.join(t['toks'])[:300] or bad, t['obs']['err'][:160]),
                          {'kind': 'dialects', 'S': t['S'], 'k': t['k'], 'opt': t.get('opt'), 'o': t.get('o'), 'toks': t['toks'], 'obs': t['obs'], 'bad_texts': bad})
    out.assumptions += ['buildable subsets, breakage edits and option-only constructs are those of Dialects.tla; texts are its token sequences under four simple layouts',
                        'monotonicity is checked along single steps S -> S + {o} over a corpus of well-formed files (one per representative declaration plus the table hosts)',
                        'a subset that PLY cannot build a parser from is outside the quantifier']


def replay(path):
    with open(path) as fh:
        rp = json.load(fh)['replay']
    print(rp['S'], rp['k'], rp['opt'], rp['o'])
    print(parse(rp['S'], text_of(rp['toks'], 0)) if rp['toks'] else rp['bad_texts'])
