"""C05: types, constraints and DEFVALs (specs/Types.tla) through both code generators."""
import itertools
import json
import os
import random

from harness import tlc, mibs, render, par

MOD, BASEMOD = 'TYPES-MIB', 'TYPES-BASE-MIB'
VAL = {'I32MIN': -2147483648, 'M1': -1, 'Z': 0, 'P1': 1, 'P255': 255, 'I32MAX': 2147483647, 'U32MAX': 4294967295, 'U32MAX1': 4294967296,
       'I64MIN': -9223372036854775808, 'U64MAX': 18446744073709551615}
ID = {v: k for k, v in VAL.items()}
ORDER = sorted(VAL, key=lambda k: VAL[k])
LIMITS = {'Integer32': ('I32MIN', 'I32MAX'), 'INTEGER': ('I32MIN', 'I32MAX'), 'Unsigned32': ('Z', 'U32MAX'), 'Counter64': ('Z', 'U64MAX'),
          'OCTET STRING': ('Z', 'P255'), 'Opaque': ('Z', 'P255')}
SMI_IMPORTABLE = {'Integer32', 'Unsigned32', 'Gauge32', 'Counter64', 'TimeTicks', 'IpAddress', 'Opaque'}
PERMS = list(itertools.permutations(range(4)))


def spell(lit):
    n = VAL[lit['v']]
    if lit['f'] == 'dec':
        return str(n)
    if lit['f'] == 'hex':
        h = '%X' % n
        return "'%s'H" % (h if len(h) % 2 == 0 else '0' + h)
    b = bin(n)[2:]
    return "'%s'B" % b.zfill((len(b) + 7) // 8 * 8)


def toid(n):
    try:
        return ID.get(int(n), '?%s' % n)
    except (TypeError, ValueError):
        return '?%r' % (n,)


def base_syntax(b, refine_level=0):
    if b == 'ENUM':
        return {'base': 'INTEGER', 'enum': [['one', 11], ['two', 12], ['three', 13]]}
    if b == 'BITS':
        return {'base': 'BITS', 'bits': [['b0', 0], ['b1', 1], ['b2', 2]]}
    return {'base': b}


REFINE = {'Integer32': [['0', '100'], ['1', '50'], ['2', '40'], ['3', '30']], 'Unsigned32': [['0', '100'], ['1', '50'], ['2', '40'], ['3', '30']],
          'OCTET STRING': [['0', '32'], ['0', '16'], ['0', '8'], ['0', '4']]}
DEFAULT_FOR = {'Integer32': '5', 'Unsigned32': '5', 'OCTET STRING': '"abc"', 'ENUM': 'two', 'BITS': '{ b1 }', 'OBJECT IDENTIFIER': 'enterprises'}


def refined(syn, base, level):
    r = REFINE.get(base)
    if not r:
        return syn
    s = dict(syn)
    s['sizes' if base == 'OCTET STRING' else 'ranges'] = [r[level]]
    return s


def legal(aspect, sc):
    if aspect in ('range', 'size'):
        lo_lim, hi_lim = LIMITS[sc['base']]
        prev = None
        for a in sc['alts']:
            lo, hi = VAL[a['lo']['v']], VAL[a['hi']['v']]
            if lo > hi or lo < VAL[lo_lim] or hi > VAL[hi_lim]:
                return False
            if prev is not None and lo <= prev:
                return False
            prev = hi
    return True


def need(imports, frm, sym):
    imports.setdefault(frm, [])
    if sym not in imports[frm]:
        imports[frm].append(sym)


# concrete names of the chain's types T1..T3 (by salt): in the second scheme a derived type sorts BEFORE its parent,
# so that an output ordered by name instead of by dependency differs from the declared order
NAME_SCHEMES = [['T1', 'T2', 'T3'], ['Zeta1', 'Mid2', 'Alpha3']]


def tname(k, salt):
    return NAME_SCHEMES[(salt // 3) % len(NAME_SCHEMES)][k - 1]


def abstract_name(n, salt):
    sch = NAME_SCHEMES[(salt // 3) % len(NAME_SCHEMES)]
    return 'T%d' % (sch.index(n) + 1) if n in sch else n


def build(aspect, sc, salt):
    """-> {module name: module description}"""
    imports = {'SNMPv2-SMI': ['OBJECT-TYPE', 'enterprises']}
    decls = [{'k': 'value', 'name': 'typesRoot', 'oid': {'parent': 'enterprises', 'arcs': [[None, 700]]}}]
    base_decls, base_imports = [], {}
    obj = {'k': 'objecttype', 'name': 'theObject', 'access': 'read-write', 'oid': {'parent': 'typesRoot', 'arcs': [[None, 1]]}}

    def imp_base(b, where):
        if b in SMI_IMPORTABLE:
            need(where, 'SNMPv2-SMI', b)
    if aspect == 'chain':
        b = sc['base']
        prevname, prevsyn = None, base_syntax(b)
        tdecls = []
        for k, ln in enumerate(sc['chain'], 1):
            name = tname(k, salt)
            syn = dict(prevsyn) if prevname is None else {'base': prevname}
            if ln['refine']:
                syn = refined(syn, b, k - 1)
            d = {'k': 'tc' if ln['form'] == 'tc' else 'type', 'name': name, 'syntax': syn}
            tgt_imports = base_imports if ln['imported'] else imports
            if ln['form'] == 'tc':
                need(tgt_imports, 'SNMPv2-TC', 'TEXTUAL-CONVENTION')
            if prevname is None:
                imp_base(b, tgt_imports)
            elif not ln['imported'] and sc['chain'][k - 2]['imported']:
                need(imports, BASEMOD, prevname)
            (base_decls if ln['imported'] else tdecls).append(d)
            prevname = name
        if prevname is None:
            obj['syntax'] = prevsyn
            imp_base(b, imports)
        else:
            obj['syntax'] = {'base': prevname}
            if sc['chain'][-1]['imported']:
                need(imports, BASEMOD, prevname)
        if sc['defval']:
            obj['defval'] = DEFAULT_FOR[b]
        block = tdecls + [obj]
        if sc.get('decoy'):
            other = 'OCTET STRING' if BASE_INT(b) or b in ('OBJECT IDENTIFIER', 'BITS') else 'Integer32'
            imp_base(other, imports)
            decls.append({'k': 'type', 'name': tname(1, salt), 'syntax': refined({'base': other}, other, 0)})
            decls.append({'k': 'objecttype', 'name': 'decoyObject', 'access': 'read-write', 'syntax': {'base': tname(1, salt)}, 'defval': DEFAULT_FOR[other],
                          'oid': {'parent': 'typesRoot', 'arcs': [[None, 2]]}})
        perm = [i for i in PERMS[(sc['order'] * 4 + salt) % len(PERMS)] if i < len(block)]
        decls += [block[i] for i in perm]
    elif aspect in ('range', 'size'):
        b = sc['base']
        imp_base(b, imports)
        alts = [[spell(a['lo']), None if a['lo'] == a['hi'] else spell(a['hi'])] for a in sc['alts']]
        obj['syntax'] = {'base': b, ('sizes' if aspect == 'size' else 'ranges'): alts}
        decls.append(obj)
    elif aspect == 'named':
        labels = ['one', 'two', 'three']
        items = [[labels[p - 1], p + (0 if sc['kind'] == 'bits' else 10)] for p in sc['perm'][:sc['n']]]
        syn = {'base': 'BITS', 'bits': items} if sc['kind'] == 'bits' else {'base': 'INTEGER', 'enum': items}
        if sc['inline']:
            obj['syntax'] = syn
            decls.append(obj)
        else:
            need(imports, 'SNMPv2-TC', 'TEXTUAL-CONVENTION')
            tc = {'k': 'tc', 'name': 'NamedTC', 'syntax': syn}
            obj['syntax'] = {'base': 'NamedTC'}
            decls += [obj, tc] if salt % 2 else [tc, obj]
    else:  # defval
        b, n = sc['base'], sc['notation']
        imp_base(b, imports)
        syn = base_syntax(b)
        name = None
        for k in range(sc['depth']):
            tn = 'D%d' % (k + 1)
            form = 'tc' if (k + salt) % 2 else 'type'
            if form == 'tc':
                need(imports, 'SNMPv2-TC', 'TEXTUAL-CONVENTION')
            decls.append({'k': form, 'name': tn, 'syntax': syn if name is None else {'base': name}})
            name = tn
        obj['syntax'] = syn if name is None else {'base': name}
        obj['defval'] = {'dec': '255', 'neg': '-1', 'hex': "'00FF'H", 'bin': "'0000000011111111'B", 'str': '"abc"', 'emptystr': '""', 'enum': 'two',
                         'bits0': '{ }', 'bits1': '{ b1 }', 'bits2': '{ b2, b0 }', 'oidlocal': 'typesRoot', 'oidimported': 'enterprises'}[n]
        decls.append(obj)
    mods = {MOD: {'name': MOD, 'imports': sorted(imports.items()), 'decls': decls}}
    if base_decls:
        mods[BASEMOD] = {'name': BASEMOD, 'imports': sorted(base_imports.items()), 'decls': base_decls}
    return mods


LOCAL_OID = '(1, 3, 6, 1, 4, 1, 700)'
ENT_OID = '(1, 3, 6, 1, 4, 1)'


def json_default(entry):
    d = entry.get('default', {}).get('default') if isinstance(entry.get('default'), dict) else None
    out = {'defpresent': bool(d), 'defbase': '-', 'deffmt': '-', 'defden': '-'}
    if not d:
        # BITS defaults are emitted one level higher
        d = entry.get('default') if isinstance(entry.get('default'), dict) and 'format' in entry.get('default', {}) else None
        if not d:
            return out
        out['defpresent'] = True
    out['defbase'] = d.get('basetype', '-')
    out['deffmt'] = d.get('format', '-')
    v, f = d.get('value'), d.get('format')
    base_int = d.get('basetype') in ('Integer32', 'Integer')
    if f == 'decimal' or (f in ('hex', 'bin') and base_int):
        out['defden'] = toid(v)
    elif f == 'hex':
        out['defden'] = 'octets:' + str(v).lower()
    elif f == 'string':
        out['defden'] = 'text:' + str(v)
    elif f == 'enum':
        out['defden'] = 'label:' + str(v)
    elif f == 'bits':
        bits = v.get('bits', v) if isinstance(v, dict) else {}
        out['defden'] = 'bits:' + ','.join(sorted(bits))
    elif f == 'oid':
        out['defden'] = 'oid:local' if str(v) == LOCAL_OID else ('oid:enterprises' if str(v) == ENT_OID else 'oid:?' + str(v))
    return out


def walk_constraints(spec, cls):
    found = []
    stack = [spec]
    while stack:
        c = stack.pop()
        if type(c).__name__ == cls:
            found.append(c)
        vals = getattr(c, '_values', None) or ()
        for v in vals:
            if hasattr(v, '_values'):
                stack.append(v)
    return found


def py_observe(aspect, sc, syms, salt=0):
    out = {'parent': '-', 'alts': [], 'named': [], 'defden': '-'}
    obj = syms.get(MOD, {}).get('theObject')
    if obj is None:
        return out
    syn = obj.getSyntax()
    mro = [c.__name__ for c in type(syn).__mro__]
    # the generated _X_Type class is renamed to / derived from its parent type
    out['parent'] = type(syn).__name__ if not type(syn).__name__.startswith('_') else mro[1]
    if aspect == 'chain' and out['parent'] in ('TextualConvention',):
        out['parent'] = mro[2]
    out['parent'] = abstract_name(out['parent'], salt)
    if aspect in ('range', 'size'):
        cls = 'ValueSizeConstraint' if aspect == 'size' else 'ValueRangeConstraint'
        # the object's own alternatives are the last union added to the intersection
        spec = syn.subtypeSpec
        own = [c for c in getattr(spec, '_values', ()) if type(c).__name__ == 'ConstraintsUnion']
        last = own[-1] if own else None
        if last is not None:
            out['alts'] = [[toid(c.start), toid(c.stop)] for c in getattr(last, '_values', ()) if type(c).__name__ == cls]
    if aspect == 'named':
        nv = getattr(syn, 'namedValues', None)
        out['named'] = [[str(k), int(v)] for k, v in (nv.items() if nv is not None else [])]
    if aspect == 'defval':
        cls = type(syn)
        dv = None
        for c in cls.__mro__:
            for attr in ('defaultValue', 'defaultHexValue', 'defaultBinValue'):
                if attr in c.__dict__ and dv is None and not c.__module__.startswith(('pyasn1.', 'pysnmp.')):
                    dv = (attr, c.__dict__[attr])
        if dv:
            attr, v = dv
            n = sc['notation']
            try:
                if n in ('dec', 'neg') or (n in ('hex', 'bin') and BASE_INT(sc['base'])):
                    out['defden'] = toid(v)
                elif n in ('hex', 'bin'):
                    out['defden'] = 'octets:' + str(v).lower()
                elif n in ('str', 'emptystr'):
                    out['defden'] = 'text:' + bytes(v).decode('latin1')
                elif n == 'enum':
                    out['defden'] = 'label:' + {11: 'one', 12: 'two', 13: 'three'}.get(int(v), '?%s' % v)
                elif n.startswith('oid'):
                    out['defden'] = 'oid:local' if str(v) == LOCAL_OID else ('oid:enterprises' if str(v) == ENT_OID else 'oid:?' + str(v))
                elif n.startswith('bits'):
                    out['defden'] = 'bits:?' + repr(v)[:40]
            except Exception as exc:
                out['defden'] = '?%s' % type(exc).__name__
    return out


def BASE_INT(b):
    return b in ('INTEGER', 'Integer32', 'ENUM', 'Unsigned32', 'Gauge32', 'Counter64', 'TimeTicks')


def replay_one(args):
    aspect, sc, salt, with_py, scratch = args
    mods = build(aspect, sc, salt)
    texts = {n: render.render_module(m) for n, m in mods.items()}
    obs = {'status': '?', 'error': '', 'json': {'parent': '-', 'links': [], 'defpresent': False, 'defbase': '-', 'deffmt': '-', 'defden': '-', 'alts': [], 'named': []},
           'py': {'parent': '-', 'alts': [], 'named': [], 'defden': '-'}}
    pj = mibs.Pipeline(texts, backend='json')
    rj = pj.compile(*texts)
    st = rj.get(MOD)
    bad = [m for m in texts if str(rj.get(m)) != 'compiled']
    obs['status'] = 'compiled' if not bad else str(rj.get(bad[0]))
    obs['error'] = ' '.join(str(getattr(rj.get(m), 'error', '')) for m in bad)[:300]
    if not bad:
        doc, dups, err = render.observe_json(pj.written[MOD])
        e = doc.get('theObject', {})
        syn = e.get('syntax', {})
        J = obs['json']
        J['parent'] = abstract_name(syn.get('type', '-'), salt)
        J.update(json_default(e))
        cons = syn.get('constraints', {})
        if aspect in ('range', 'size'):
            J['alts'] = [[toid(x.get('min')), toid(x.get('max'))] for x in cons.get('size' if aspect == 'size' else 'range', [])]
        if aspect == 'named':
            src = syn
            if not sc['inline']:
                src = doc.get('NamedTC', {}).get('type', {})
            named = src.get('bits') if sc['kind'] == 'bits' else src.get('constraints', {}).get('enumeration')
            J['named'] = [[k, v] for k, v in (named or {}).items()]
        if aspect == 'chain':
            for k, ln in enumerate(sc['chain'], 1):
                d = doc.get(tname(k, salt), {})
                J['links'].append({'parent': abstract_name(d.get('type', {}).get('type', '-'), salt) if isinstance(d.get('type'), dict) else '-', 'cls': d.get('class', '-')})
        if with_py:
            pp = mibs.Pipeline(texts, backend='pysnmp')
            rp = pp.compile(*texts)
            badp = [m for m in texts if str(rp.get(m)) != 'compiled']
            if badp:
                obs['status'] = 'py-' + str(rp.get(badp[0]))
                obs['error'] = str(getattr(rp.get(badp[0]), 'error', ''))[:300]
            else:
                syms, errs = render.load_pysnmp(pp.written, os.path.join(scratch, 'w%d' % os.getpid()), load_order=[MOD])
                if errs:
                    obs['status'] = 'py-loaderror'
                    obs['error'] = ' '.join(errs.values())[-300:]
                else:
                    try:
                        obs['py'] = py_observe(aspect, sc, syms, salt)
                    except Exception as exc:
                        obs['status'] = 'py-observe-error'
                        obs['error'] = '%s: %s' % (type(exc).__name__, exc)
    return {'aspect': aspect, 'sc': sc, 'pysnmp': bool(with_py), 'obs': obs, 'text': '\n'.join(texts[k] for k in sorted(texts, reverse=True))}


def run(out, prop, tier, seed, **kw):
    rnd = random.Random(seed)
    scratch = tlc.mkscratch('ty-')
    res = tlc.run('MC_Types', 'g.cfg', files={'g.cfg': 'INIT Init\nNEXT Next\nINVARIANT Export\n'}, timeout=3000)
    out.add_tlc(res, 'Types/all-aspects')
    scs = [e for e in res.exports if legal(e['aspect'], e['sc'])]
    out.extra['scenarios_exported'] = len(res.exports)
    out.extra['scenarios_legal'] = len(scs)
    rnd.shuffle(scs)
    # every defval / named / chain scenario, a sample of the (large) range family in the quick tier
    if tier == 'quick':
        keep = [e for e in scs if e['aspect'] in ('defval', 'named')] + [e for e in scs if e['aspect'] == 'chain'][:1500] + \
               [e for e in scs if e['aspect'] in ('range', 'size')][:1500]
    else:
        keep = scs
    npy = 350 if tier == 'quick' else 4000
    rnd.shuffle(keep)
    jobs = [(e['aspect'], e['sc'], seed + i, i < npy, scratch) for i, e in enumerate(keep)]
    results = par.pmap(replay_one, jobs, chunk=8)
    traces = []
    for i, r in enumerate(results):
        r['id'] = 'y%d' % i
        traces.append(r)
        out.evaluations += 1
        out.distinct.add(json.dumps([r['aspect'], r['sc']], sort_keys=True))
    path = os.path.join(scratch, 'traces.json')
    with open(path, 'w') as fh:
        json.dump([{k: v for k, v in t.items() if k != 'text'} for t in traces], fh)
    vres = tlc.run('TypesTrace', 't.cfg', files={'t.cfg': 'INIT TInit\nNEXT TNext\nINVARIANT Report\n'}, env={'TRACE_FILE': path}, workers=8, timeout=3000)
    out.add_tlc(vres, 'TypesTrace')
    verdicts = {v['id']: v for v in vres.exports}
    for t in traces:
        v = verdicts.get(t['id'])
        if v is None:
            out.machinery_errors.append('no verdict for %s' % t['id'])
            continue
        out.traces += 1
        if out.traces % 701 == 1:
            out.sample({'aspect': t['aspect'], 'scenario': t['sc'], 'modules': t['text'], 'observed': t['obs'], 'failed': v['failed']})
        for f in v['failed']:
            out.violation('formula=%s;%s' % (f, classify(t, f)), '%s fails (%s %s; json=%s py=%s) for\n%s' % (
                f, t['obs']['status'], t['obs']['error'][:160], json.dumps(t['obs']['json'])[:200], json.dumps(t['obs']['py'])[:160], t['text'][:1200]),
                {'kind': 'types', 'aspect': t['aspect'], 'sc': t['sc'], 'text': t['text'], 'obs': t['obs']})
    out.assumptions += ['integer literals are symbolic ids resolved by the harness table VAL (boundaries of every numeric token class)',
                        'pysnmp observations read the generated classes through the real MibBuilder (seeded sample)',
                        'only legal constraints are generated (lower <= upper, inside the base type, ascending alternatives)']


def classify(t, f):
    a, sc, o = t['aspect'], t['sc'], t['obs']
    e = o['error']
    if o['status'].startswith('py-'):
        order = mibs.type_order_witness({'m': t['text']}, e) if 'is not defined' in e else ''
        cause = ('tc-of-tc-mro' if 'method resolution' in e else
                 ('type-used-before-definition' if order in ('declared-before-parent', 'plain-from-tc') else 'type-emitted-out-of-order;' + order) if order else
                 'plain-type-not-exported' if 'No symbol' in e else 'bits-defval-template' if ('Jinja template' in e and 'BITS' in json.dumps(sc)) else 'other')
        return 'pysnmp;%s' % cause
    if a == 'defval':
        side = 'json' if (o['json']['defden'] == '-' or not o['json']['defpresent']) else ('py-missing' if o['py']['defden'] == '-' else 'py-or-json')
        return 'defval;%s;%s;%s' % (sc['notation'], 'int' if BASE_INT(sc['base']) else sc['base'].replace(' ', ''), side)
    if a == 'chain':
        return 'chain;%s;%s' % (o['status'], 'unknown-parents' if 'Unknown parents' in e else 'other')
    if a == 'named':
        return 'named;%s;%s;%s' % (sc['kind'], 'inline' if sc['inline'] else 'tc', o['status'])
    return a + ';' + o['status']


def _json_ok(t):
    return True


def replay(path):
    with open(path) as fh:
        rp = json.load(fh)['replay']
    print(rp['text'])
    print(json.dumps(replay_one((rp['aspect'], rp['sc'], 0, True, tlc.mkscratch('ty-')))['obs'], indent=1))
