"""C01: OID forests over module sets against specs/OidTree.tla (ground truth GT computed in TLA+)."""
import json
import os
import random

from harness import tlc, mibs, render, par

LOWER = ['alpha', 'beta-two', 'gammaNode', 'delta-4x', 'if', 'ePsilon9', 'zeta-eta-theta', 'class', 'omega0']
MODS = ['A-MIB', 'Bb-Ext-MIB', 'C-MIB']
# (label, NMods, MaxNodes, Kinds, ArcForms, Roots)
SLICES = {
    'struct': (2, 3, 'KStruct', 'Arcs2', 'RTwo'),
    'kinds': (2, 2, 'KAll', 'Arcs4', 'RAll'),
    'tables': (2, 4, 'KTab', 'Arcs1', 'RTwo'),
    'struct3': (3, 3, 'KStruct', 'Arcs1', 'RTwo'),
    'deep': (2, 4, 'KStruct', 'Arcs1', 'RTwo'),
}
TIERS = {'quick': ['struct', 'kinds', 'tables'], 'thorough': ['struct', 'kinds', 'tables', 'struct3', 'deep']}
CFG = 'CONSTANTS\n  NMods = %d\n  MaxNodes = %d\n  Kinds <- %s\n  ArcForms <- %s\n  Roots <- %s\nINIT %s\nNEXT %s\n'
ROOT_SPELL = {'iso': ('iso', []), 'num': (None, [[None, 1]]), 'isonum': (None, [['iso', 1]]), 'base': ('enterprises', [])}
LABELS = ['sub', 'org', 'x-y', 'lbl']


UNIQUE = ['uAlpha', 'uBeta-x', 'uGamma', 'uDelta', 'uEps', 'uZeta']


def names_for(sc, salt):
    """Names are module-scoped: every module numbers its declarations from the start of the pool, so different modules
    reuse identifiers.  A node that is imported into a module which defines or imports the same identifier gets a
    unique one instead (an IMPORTS clash would make the text illegal)."""
    nodes = sc['nodes']
    rank = {}
    nm = {}
    for i, nd in enumerate(nodes, 1):
        rank[nd['mod']] = rank.get(nd['mod'], 0) + 1
        nm[i] = LOWER[(rank[nd['mod']] - 1 + salt) % len(LOWER)]
    changed = True
    while changed:
        changed = False
        for m in set(nd['mod'] for nd in nodes):
            local = [i for i, nd in enumerate(nodes, 1) if nd['mod'] == m]
            imported = sorted(set(nd['parent'] for nd in nodes if nd['mod'] == m and nd['parent'] and nodes[nd['parent'] - 1]['mod'] != m))
            seen = set(nm[i] for i in local)
            for x in imported:
                if nm[x] in seen:
                    nm[x] = UNIQUE[(x - 1) % len(UNIQUE)]
                    changed = True
                seen.add(nm[x])
    return nm


def seqname(rowname):
    return 'Seq' + ''.join(p.capitalize() for p in rowname.replace('-', ' ').split())


def build_modules(sc, salt):
    nodes = sc['nodes']
    nm = names_for(sc, salt)
    nmods = max(nd['mod'] for nd in nodes)
    mods = {}
    for m in range(1, nmods + 1):
        ids = sc['decl'][m - 1] if m - 1 < len(sc['decl']) else []
        if not ids:
            continue
        imports = {}
        decls = []
        seqs = []

        def need(frm, sym):
            imports.setdefault(frm, [])
            if sym not in imports[frm]:
                imports[frm].append(sym)
        first_scalar = next((i for i in range(1, len(nodes) + 1) if nodes[i - 1]['mod'] == m and nodes[i - 1]['kind'] == 'scalar'), None)
        first_notif = next((i for i in range(1, len(nodes) + 1) if nodes[i - 1]['mod'] == m and nodes[i - 1]['kind'] == 'notification'), None)
        for i in ids:
            nd = nodes[i - 1]
            arcs = [[LABELS[(i + k) % len(LABELS)] if a['lab'] else None, a['n']] for k, a in enumerate(nd['arcs'])]
            if nd['parent'] == 0:
                par_, pre = ROOT_SPELL[nd['root']]
                if nd['root'] == 'base':
                    need('SNMPv2-SMI', 'enterprises')
            else:
                par_, pre = nm[nd['parent']], []
                pm = nodes[nd['parent'] - 1]['mod']
                if pm != m:
                    need(MODS[pm - 1], par_)
            oid = {'parent': par_, 'arcs': pre + arcs}
            k = nd['kind']
            d = {'name': nm[i], 'oid': oid}
            if k == 'value':
                d['k'] = 'value'
            elif k == 'objectidentity':
                d['k'] = 'objectidentity'
                need('SNMPv2-SMI', 'OBJECT-IDENTITY')
            elif k == 'scalar':
                d.update(k='objecttype', syntax={'base': 'Integer32'})
                need('SNMPv2-SMI', 'OBJECT-TYPE')
                need('SNMPv2-SMI', 'Integer32')
            elif k == 'table':
                row = next((j for j in range(1, len(nodes) + 1) if nodes[j - 1]['parent'] == i), None)
                d.update(k='objecttype', syntax={'seqof': seqname(nm[row])}, access='not-accessible')
                need('SNMPv2-SMI', 'OBJECT-TYPE')
            elif k == 'row':
                cols = [j for j in range(1, len(nodes) + 1) if nodes[j - 1]['parent'] == i]
                d.update(k='objecttype', syntax={'base': seqname(nm[i])}, access='not-accessible', index=[[False, nm[cols[0]]]])
                need('SNMPv2-SMI', 'OBJECT-TYPE')
                seqdecl = {'k': 'sequence', 'name': seqname(nm[i]), 'members': [[nm[c], 'Integer32'] for c in cols]}
                seqs.append((len(decls), seqdecl))
                need('SNMPv2-SMI', 'Integer32')
            elif k == 'column':
                d.update(k='objecttype', syntax={'base': 'Integer32'})
                need('SNMPv2-SMI', 'OBJECT-TYPE')
                need('SNMPv2-SMI', 'Integer32')
            elif k == 'notification':
                d['k'] = 'notificationtype'
                need('SNMPv2-SMI', 'NOTIFICATION-TYPE')
            elif k == 'moduleidentity':
                d.update(k='moduleidentity', revisions=[['200001010000Z', 'first']])
                need('SNMPv2-SMI', 'MODULE-IDENTITY')
            elif k == 'objectgroup':
                d.update(k='objectgroup', objects=[nm[first_scalar]])
                need('SNMPv2-CONF', 'OBJECT-GROUP')
            elif k == 'notifgroup':
                d.update(k='notificationgroup', objects=[nm[first_notif]])
                need('SNMPv2-CONF', 'NOTIFICATION-GROUP')
            elif k == 'compliance':
                d.update(k='modulecompliance')
                need('SNMPv2-CONF', 'MODULE-COMPLIANCE')
            elif k == 'capabilities':
                d.update(k='agentcapabilities')
                need('SNMPv2-CONF', 'AGENT-CAPABILITIES')
            elif k == 'trap':
                d.update(k='traptype', enterprise=par_, number=nd['arcs'][0]['n'])
                need('RFC-1215', 'TRAP-TYPE')
            decls.append(d)
        # the SEQUENCE type of a row goes right after the row, to the end, or to the very start of the module
        for at, sd in reversed(seqs):
            where = (salt + at) % 3
            decls.insert(at + 1 if where == 0 else (len(decls) if where == 1 else 0), sd)
        mods[m] = {'name': MODS[m - 1], 'imports': sorted(imports.items()), 'decls': decls}
    return mods, nm


def oidseq(s):
    return [int(x) for x in s.split('.')] if s else []


def replay_one(args):
    sc, salt, with_py, scratch = args
    mods, nm = build_modules(sc, salt)
    texts = {m['name']: render.render_module(m) for m in mods.values()}
    obs = {}
    n = len(sc['nodes'])
    pj = mibs.Pipeline(texts, backend='json')
    rj = pj.compile(*texts.keys())
    pytexts, rp = {}, {}
    if with_py:
        pp = mibs.Pipeline(texts, backend='pysnmp')
        rp = pp.compile(*texts.keys())
        pytexts = {k: v for k, v in pp.written.items()}
        syms, perrs = render.load_pysnmp(pytexts, os.path.join(scratch, 'w%d' % os.getpid())) if pytexts else ({}, {})
    nmods = max(nd['mod'] for nd in sc['nodes'])
    for m in range(1, nmods + 1):
        if m not in mods:
            obs[m] = {'status': 'unused', 'json': [], 'py': [], 'oids': [], 'identity': [], 'enterprise': [], 'compliance': [], 'error': ''}
            continue
        name = mods[m]['name']
        st = rj.get(name)
        o = {'status': str(st), 'json': [[] for _ in range(n)], 'py': [[] for _ in range(n)], 'oids': [], 'identity': [], 'enterprise': [],
             'compliance': [], 'error': str(getattr(st, 'error', ''))[:200]}
        if str(st) == 'compiled':
            doc, dups, err = render.observe_json(pj.written.get(name, ''))
            for i in range(1, n + 1):
                if sc['nodes'][i - 1]['mod'] == m and doc:
                    ent = doc.get(render.und(nm[i])) or doc.get('pysmi_' + render.und(nm[i])) or {}
                    o['json'][i - 1] = oidseq(ent.get('oid', ''))
            o['oids'] = sorted(oidseq(x) for x in getattr(st, 'oids', ()))
            o['identity'] = oidseq(getattr(st, 'identity', None) or '')
            o['enterprise'] = oidseq(getattr(st, 'enterprise', None) or '')
            o['compliance'] = [oidseq(x) for x in getattr(st, 'compliance', ())]
            if with_py:
                stp = rp.get(name)
                if str(stp) != 'compiled' or name in perrs:
                    o['status'] = 'py-' + (str(stp) if str(stp) != 'compiled' else 'loaderror')
                    o['error'] = str(getattr(stp, 'error', perrs.get(name, '')))[:200]
                else:
                    for i in range(1, n + 1):
                        if sc['nodes'][i - 1]['mod'] == m:
                            ob = syms.get(name, {}).get(nm[i]) or syms.get(name, {}).get(render.und(nm[i])) or syms.get(name, {}).get('pysmi_' + render.und(nm[i]))
                            try:
                                o['py'][i - 1] = [int(x) for x in ob.getName()] if ob is not None else []
                            except Exception:
                                o['py'][i - 1] = []
        obs[m] = o
    return {'nodes': sc['nodes'], 'decl': sc['decl'], 'pysnmp': bool(with_py), 'obs': [obs[m] for m in range(1, nmods + 1)], 'texts': texts,
            'names': {str(k): v for k, v in nm.items()}}


def run(out, prop, tier, seed, only_slices=None):
    rnd = random.Random(seed)
    scratch = tlc.mkscratch('ot-')
    for sl in (only_slices or TIERS[tier]):
        nm_, mx, kinds, arcs, roots = SLICES[sl]
        res = tlc.run('MC_OidTree', 'g.cfg', files={'g.cfg': CFG % (nm_, mx, kinds, arcs, roots, 'Init', 'Next') + 'INVARIANT Export\n'}, timeout=3000)
        out.add_tlc(res, 'OidTree/' + sl)
        scs = res.exports
        out.extra.setdefault('scenarios_exported', {})[sl] = len(scs)
        njson, npy = (2500, 250) if tier == 'quick' else (60000, 4000)
        rnd.shuffle(scs)
        scs = scs[:njson]
        jobs = [(sc, seed + i, i < npy, scratch) for i, sc in enumerate(scs)]
        results = par.pmap(replay_one, jobs)
        traces = []
        texts = {}
        for i, r in enumerate(results):
            tid = '%s-%d' % (sl, i)
            texts[tid] = r.pop('texts')
            r['id'] = tid
            traces.append(r)
            out.evaluations += 1
            if len(r['nodes']) >= 2:
                out.distinct.add(json.dumps([r['nodes'], r['decl']], sort_keys=True))
        path = os.path.join(scratch, 'traces.json')
        with open(path, 'w') as fh:
            json.dump(traces, fh)
        vres = tlc.run('OidTreeTrace', 't.cfg', files={'t.cfg': CFG % (nm_, mx, kinds, arcs, roots, 'TInit', 'TNext') + 'INVARIANT Report\n',
                                                   'OidTreeTrace.tla': open(os.path.join(tlc.SPECS, 'OidTreeTrace.tla')).read().replace(
                                                       'VARIABLE tid', open(os.path.join(tlc.SPECS, 'MC_OidTree.tla')).read().split('EXTENDS OidTree, Json')[1].split('NodesJ ==')[0] + 'VARIABLE tid')},
                       env={'TRACE_FILE': path}, workers=8, timeout=3000)
        out.add_tlc(vres, 'OidTreeTrace/' + sl)
        verdicts = {v['id']: v for v in vres.exports}
        for t in traces:
            v = verdicts.get(t['id'])
            if v is None:
                out.machinery_errors.append('no verdict for %s' % t['id'])
                continue
            out.traces += 1
            if out.traces % 601 == 1:
                out.sample({'modules': texts[t['id']], 'ground_truth': {str(i + 1): n['gt'] for i, n in enumerate(t['nodes'])}, 'failed': v['failed']})
            if v['failed']:
                errs = '; '.join('%s' % o['error'] for o in t['obs'] if o.get('error'))
                cls = classify(t, errs)
                for f in v['failed']:
                    out.violation('formula=%s;%s' % (f, cls), '%s fails (%s) for modules:\n%s' % (f, errs[:200], '\n'.join(texts[t['id']].values())[:900]),
                                  {'kind': 'oidtree', 'scenario': {'nodes': t['nodes'], 'decl': t['decl']}, 'texts': texts[t['id']], 'obs': t['obs']})
    out.assumptions += ['MIB texts are rendered by harness/render.py from the TLA+ scenario; identifiers come from a pool with hyphens, mixed case and Python keywords',
                        'pysnmp modules are executed with the real pysnmp MibBuilder (a seeded sample of the scenarios)',
                        'SMI base modules are harness fixtures (harness/mibs.py), stubbed out of code generation']


def classify(t, errs):
    if 'No generated code for symbol' in errs or ('no symbol' in errs and 'in module' in errs):
        return 'python-keyword-identifier'
    if any(o['status'] == 'py-loaderror' for o in t['obs']) and imports_unsafe_name(t):
        return 'pysnmp-import-name'
    return 'other'


def imports_unsafe_name(t):
    """Does some module import a node from another module whose identifier is not a plain Python name?"""
    import keyword
    nodes = t['nodes']
    for nd in nodes:
        if nd['parent'] and nodes[nd['parent'] - 1]['mod'] != nd['mod']:
            name = t.get('names', {}).get(str(nd['parent']), '')
            if '-' in name or keyword.iskeyword(name):
                return True
    return False


def replay(path):
    with open(path) as fh:
        rp = json.load(fh)['replay']
    r = replay_one((rp['scenario'], 0, True, tlc.mkscratch('ot-')))
    print(json.dumps(r['obs'], indent=1)[:3000])
