from checks import mibcompile, oidindex, atomicwrite

RULE_MC = ('scenario = terminal state of MibCompile.tla exported by TLC (request x lazily chosen answers of every '
           'component x options); non-trivial = at least one component answered with a failure / fresh / borrow; '
           'distinct by (request, environment)')
REGISTRY = {}
for _p in ('C07', 'C08', 'C09', 'C10', 'C19'):
    REGISTRY[_p] = {'run': mibcompile.run, 'replay': mibcompile.replay, 'finish': {'rule': RULE_MC, 'exhaustive': True}}

REGISTRY['C18'] = {'run': oidindex.run, 'replay': oidindex.replay, 'finish': {
    'rule': 'history = sequence of genIndex() calls exported from the terminal states of OidIndex.tla (every module summary over an OID universe with digit-sharing arcs); non-trivial = at least two OIDs involved; distinct by history', 'exhaustive': True}}

REGISTRY['C13'] = {'run': atomicwrite.run, 'replay': atomicwrite.replay, 'finish': {
    'rule': 'schedule = terminal behaviour of AtomicWrite.tla (writer kind x 1-2 writers x one fault per writer at any system call x fresh/existing destination x dry-run); non-trivial = a fault is injected or two writers interleave; distinct by (faults, call order, initial state)', 'exhaustive': False}}
