from checks import mibcompile, oidindex, atomicwrite, searcher, readerlookup, history, oidtree, decls, refs, types, texts, v1v2, pysnmpload, syntax, mutate, dialects, clitools, realworld

RULE_MC = ('scenario = terminal state of MibCompile.tla exported by TLC (request x lazily chosen answers of every '
           'component x options); non-trivial = at least one component answered with a failure / fresh / borrow; '
           'distinct by (request, environment)')
REGISTRY = {}
RULE_RW = ('; plus real-components worlds of MibDump.tla (on-disk state of two modules, alias file, base modules, import shapes and '
           'spellings, second source directory, destination and borrower directories x options) compiled by the real MibCompiler with '
           'real reader / parser / generators / searchers / borrower / writer behind recording proxies')
# quick tier: the real-components slices that exercise the property's own phases (thorough: all of them)
RW_QUICK = {'C07': ['rw-sources', 'rw-dest'], 'C08': ['rw-graph', 'rw-sources'], 'C09': ['rw-status'], 'C10': ['rw-status', 'rw-sources'], 'C19': ['rw-sources']}


def _split(kw):
    sl = kw.get('only_slices')
    if not sl:
        return None, None
    sl = [x for x in sl if x not in ('searcher', 'readerlookup')]
    return [x for x in sl if not x.startswith('rw-')], [x for x in sl if x.startswith('rw-')]


def _mc_run(out, prop, tier, seed, **kw):
    dbl, rw = _split(kw)
    if dbl is None or dbl:
        mibcompile.run(out, prop, tier, seed, **({'only_slices': dbl} if dbl else {}))
    if dbl is None or rw:
        realworld.run(out, prop, tier, seed, only_slices=rw or (RW_QUICK[prop] if tier == 'quick' else None))


def _mc_replay(path):
    import json
    with open(path) as fh:
        kind = json.load(fh)['replay'].get('kind')
    return realworld.replay(path) if kind == 'realworld' else mibcompile.replay(path)


for _p in ('C07', 'C08', 'C09', 'C10', 'C19'):
    REGISTRY[_p] = {'run': _mc_run, 'replay': _mc_replay, 'finish': {'rule': RULE_MC + RULE_RW, 'exhaustive': True}}


def _c10(out, prop, tier, seed, **kw):
    sl = kw.get('only_slices')
    if sl != ['searcher']:
        _mc_run(out, prop, tier, seed, **kw)
    if not sl or 'searcher' in sl:
        searcher.run(out, prop, tier, seed)


def _c10_replay(path):
    import json
    with open(path) as fh:
        kind = json.load(fh)['replay'].get('kind')
    return searcher.replay(path) if kind == 'searcher' else _mc_replay(path)


REGISTRY['C10'] = {'run': _c10, 'replay': _c10_replay, 'finish': {'rule': RULE_MC + RULE_RW + '; plus every directory configuration of Searcher.tla', 'exhaustive': True}}

REGISTRY['C18'] = {'run': oidindex.run, 'replay': oidindex.replay, 'finish': {
    'rule': 'history = sequence of genIndex() calls exported from the terminal states of OidIndex.tla (every module summary over an OID universe with digit-sharing arcs); non-trivial = at least two OIDs involved; distinct by history', 'exhaustive': True}}

REGISTRY['C13'] = {'run': atomicwrite.run, 'replay': atomicwrite.replay, 'finish': {
    'rule': 'schedule = terminal behaviour of AtomicWrite.tla (writer kind x 1-2 writers x one fault per writer at any system call x fresh/existing destination x dry-run); non-trivial = a fault is injected or two writers interleave; distinct by (faults, call order, initial state)', 'exhaustive': False}}

REGISTRY['C14'] = {'run': readerlookup.run, 'replay': readerlookup.replay, 'finish': {
    'rule': 'scenario = reachable state of ReaderLookup.tla (request name x matching options x extension family x .index mapping x <=2 entries from a universe of variants and near-misses at 3 nesting levels), each materialised as a directory tree and as a ZIP archive; non-trivial = at least one entry; distinct by scenario', 'exhaustive': False}}


def _c19(out, prop, tier, seed, **kw):
    sl = kw.get('only_slices')
    if sl != ['readerlookup']:
        _mc_run(out, prop, tier, seed, **kw)
    if not sl or 'readerlookup' in sl:
        readerlookup.run(out, prop, tier, seed)


def _c19_replay(path):
    import json
    with open(path) as fh:
        kind = json.load(fh)['replay'].get('kind')
    return readerlookup.replay(path) if kind in ('readerlookup', 'url') else _mc_replay(path)


REGISTRY['C19'] = {'run': _c19, 'replay': _c19_replay, 'finish': {'rule': RULE_MC + RULE_RW + '; plus the borrower-extension scenarios of ReaderLookup.tla', 'exhaustive': True}}

REGISTRY['C12'] = {'run': history.run, 'replay': history.replay, 'finish': {
    'rule': 'history = sequence of inputs (13 valid/invalid MIB texts) fed to one instance of a kind (parser x2 dialects, symbol-table generator, JSON/pysnmp generator, compiler, same tree twice), enumerated by History.tla; non-trivial = length >= 2; distinct by (kind, history); plus one run per hash seed', 'exhaustive': True}}

REGISTRY['C01'] = {'run': oidtree.run, 'replay': oidtree.replay, 'finish': {
    'rule': 'scenario = reachable state of OidTree.tla (modules x parent choice x root spelling x sub-identifier spelling x declaration kind x insertion position); non-trivial = at least two declarations; distinct by (nodes, declaration order)', 'exhaustive': False}}

REGISTRY['C03'] = {'run': decls.run, 'replay': decls.replay, 'finish': {
    'rule': 'scenario = reachable state of Decls.tla (declaration list over all clause kinds x status x access x units x revision lists x insertion positions); non-trivial = at least two declarations; distinct by attribute list', 'exhaustive': False}}

REGISTRY['C06'] = {'run': refs.run, 'replay': refs.replay, 'finish': {
    'rule': 'scenario = state of Refs.tla: table aspect (columns x INDEX lists x IMPLIED x text order x augmenting row), list aspect (OBJECTS / NOTIFICATIONS / VARIABLES lists of length 0-3 mixing local and imported objects), compliance aspect (MODULE parts x MANDATORY-GROUPS x GROUP/OBJECT clause orders); all are replayed; distinct by scenario', 'exhaustive': True}}

REGISTRY['C05'] = {'run': types.run, 'replay': types.replay, 'finish': {
    'rule': 'scenario = state of Types.tla: chain aspect (base x 0-3 derived types x assign/TC x refinement x imported x declaration order x DEFVAL), range/size aspect (1-3 alternatives over boundary values in decimal/hex/binary), named aspect (enumerations/BITS permutations, inline or through a TC), defval aspect (notation x base class x chain depth); distinct by scenario', 'exhaustive': False}}

REGISTRY['C15'] = {'run': texts.run, 'replay': texts.replay, 'finish': {
    'rule': 'scenario = state of Texts.tla: text-bearing clause x genTexts x text filter x text (sequence of <=2 (quick) / <=3 (thorough) character classes out of 16); non-trivial = non-empty text; distinct by scenario', 'exhaustive': False}}

REGISTRY['C16'] = {'run': v1v2.run, 'replay': v1v2.replay, 'finish': {
    'rule': 'scenario = state of V1V2.tla (1-2 objects x SMIv1 type x ACCESS x STATUS, optional table with an index of three types, trap with 0-2 variables, RFC1155/RFC1065 home), rendered as SMIv1 and as SMIv2 text; plus one row per entry of the import rewrite domain; distinct by scenario', 'exhaustive': False}}

REGISTRY['C04'] = {'run': pysnmpload.run, 'replay': pysnmpload.replay, 'finish': {
    'rule': 'module sets rendered from the scenario models OidTree (all OID-carrying kinds, tables, cross-module parents), Decls, Types (chains across modules, named values, defaults) and Refs; each compiled with both backends and loaded into the real MibBuilder in a seeded order; distinct by module texts', 'exhaustive': False}}

REGISTRY['C02'] = {'run': syntax.run, 'replay': syntax.replay, 'finish': {
    'rule': 'scenario = reachable state of Syntax.tla: a file of modules built declaration by declaration (every clause kind with each optional part present/absent, lists of length 0-3, numbers of every token class) x 9 layout offsets x 4 module option sets; every single-declaration file plus simulated files of up to 2 modules x 3 declarations; each rendered twice (other fillers / block bodies) and parsed under three dialects; distinct by (tokens, fillers)', 'exhaustive': False}}

REGISTRY['C11'] = {'run': mutate.run, 'replay': mutate.replay, 'finish': {
    'rule': 'input = a file of Syntax.tla damaged by one token mutation of Mutate.tla (delete / duplicate / replace / insert with an alphabet holding forbidden words, numbers beyond 64 bits, trailing-hyphen identifiers, illegal and non-ASCII characters) or cut at every character offset; each parsed under one of the three dialects; distinct by text', 'exhaustive': False}}

REGISTRY['C17'] = {'run': dialects.run, 'replay': dialects.replay, 'finish': {
    'rule': 'item = state of Dialects.tla: a buildable subset S of the nine relaxations x (a documented breakage edit of a well-formed host | a construct writable only under an option | a single step S -> S+{o} over a corpus of well-formed files); all 384 buildable subsets in both tiers; distinct by (S, item)', 'exhaustive': False}}

REGISTRY['C20'] = {'run': clitools.run, 'replay': clitools.replay, 'finish': {
    'rule': 'mibdump: world = state of MibDump.tla (source / borrower / destination state of two modules + alias file + base modules x import shape x request x command line), each materialised on disk and run through the real script; non-trivial = not a usage error; distinct by (world, format). mibcopy: behaviour of MibCopy.tla (3-4 source files over two modules and revisions x initial destination x every visiting order); non-trivial = two files of one module; distinct by (files, destination, order)', 'exhaustive': False}}
