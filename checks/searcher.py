"""C10 (second half): the real AnyFileSearcher / PyFileSearcher / PyPackageSearcher / StubSearcher on
materialised directories, against specs/Searcher.tla."""
import importlib.util
import json
import os
import shutil
import struct
import sys

from harness import tlc

SRC = 1000000000
NAMES = ['TEST-MIB', 'SNMPv2-SMI', 'lower-mib']
CFG = 'CONSTANTS\n  Dev_PrePep552Header = FALSE\n  Dev_StalePycHides = FALSE\nINIT %s\nNEXT %s\n'


def when(t):
    """File times live inside their second: the source at .5, an equal-second destination later at .8
    (the code compares whole seconds; a destination EARLIER within the same second is below its resolution)."""
    return SRC + (t - 1) * 10 + 0.8


def source_mtime(scratch, name):
    """The time stamp handed to the searchers is the one the real FileReader reports for a real source file."""
    from pysmi.reader import FileReader
    d = os.path.join(scratch, 'src')
    os.makedirs(d, exist_ok=True)
    p = os.path.join(d, name + '.txt')
    with open(p, 'w') as fh:
        fh.write('%s DEFINITIONS ::= BEGIN END\n' % name)
    os.utime(p, ns=(SRC * 10 ** 9 + 5 * 10 ** 8, SRC * 10 ** 9 + 5 * 10 ** 8))
    return FileReader(d).getData(name)[0].mtime


def put_plain(path, e, text=b'x = 1\n'):
    if e['k'] == 'dir':
        os.makedirs(path)
    elif e['k'] == 'file':
        with open(path, 'wb') as fh:
            fh.write(text)
        ns = int(round(when(e['t']) * 10 ** 9))
        os.utime(path, ns=(ns, ns))


def put_pyc(path, e):
    if e['k'] == 'dir':
        os.makedirs(path)
    elif e['k'] == 'file':
        magic = importlib.util.MAGIC_NUMBER if e['magic'] else b'\x00\x01\r\n'
        if e['hash']:
            hdr = magic + struct.pack('<L', 1) + b'\x11' * 8
        else:
            hdr = magic + struct.pack('<L', 0) + struct.pack('<L', int(when(e['t']))) + struct.pack('<L', 6)
        with open(path, 'wb') as fh:
            fh.write(hdr + b'\x00' * 16)
        # the file system time of the .pyc says the opposite of its header: it must not be what is compared
        other = when(0) if e['t'] >= 1 else when(2)
        os.utime(path, (int(other), int(other)))


def ask(cfg, name, d, noise, pkgname, srctime=SRC):
    from pysmi import error
    from pysmi.searcher import AnyFileSearcher, PyFileSearcher, PyPackageSearcher, StubSearcher
    shutil.rmtree(d, ignore_errors=True)
    kind = cfg['kind']
    early = None
    if cfg.get('born') == 'before':      # the searcher exists before its directory does
        early = AnyFileSearcher(d).setOptions(exts=['.json', '.txt']) if kind == 'any' else PyFileSearcher(d)
    os.makedirs(d)
    if kind == 'pypkg':
        with open(os.path.join(d, '__init__.py'), 'w') as fh:
            fh.write('')
    if kind == 'any':
        put_plain(os.path.join(d, name + '.json'), cfg['e1'])
        put_plain(os.path.join(d, name + '.txt'), cfg['e2'])
    elif kind in ('py', 'pypkg'):
        put_plain(os.path.join(d, name + '.py'), cfg['e1'])
        put_pyc(os.path.join(d, name + '.pyc'), cfg['pyc'])
    if noise:        # fresh files that must NOT count: longer name, other extension, other case, bare name, __pycache__
        fresh = {'k': 'file', 't': 2}
        for n in (name + 'X.json', name + '.jsonx', name + 'X.py', name, 'X' + name + '.py', name + '.pyo',
                  name.swapcase() + '.json', name.swapcase() + '.py'):
            p = os.path.join(d, n)
            if not os.path.exists(p):
                put_plain(p, fresh)
        os.makedirs(os.path.join(d, '__pycache__'), exist_ok=True)
        put_pyc(os.path.join(d, '__pycache__', name + '.cpython-312.pyc'), {'k': 'file', 't': 2, 'magic': True, 'hash': False})
    if early is not None:
        s = early
    elif kind == 'any':
        s = AnyFileSearcher(d).setOptions(exts=['.json', '.txt'])
    elif kind == 'py':
        s = PyFileSearcher(d)
    elif kind == 'pypkg':
        s = PyPackageSearcher(pkgname)
    else:
        # near misses in the list: names that merely contain the module name must not make it a stub
        s = StubSearcher(*([name, 'OTHER-MIB'] if cfg['inlist'] else ['OTHER-MIB', 'SNMP-' + name, name + 'X', name[:-1]]))
    try:
        r = s.fileExists(name, srctime, rebuild=cfg['rebuild'])
        return 'silent' if r is None else 'returned:%r' % (r,)
    except error.PySmiFileNotModifiedError:
        return 'notmodified'
    except error.PySmiFileNotFoundError:
        return 'notfound'
    except Exception as exc:
        return 'error:' + type(exc).__name__


def run(out, prop, tier, seed, **kw):
    res = tlc.run('MC_Searcher', 'g.cfg', files={'g.cfg': CFG % ('Init', 'Next') + 'INVARIANT P_UpToDateExactly\nINVARIANT P_OnlyKnownAnswers\nINVARIANT Export\n'})
    out.add_tlc(res, 'Searcher/all-configurations')
    scratch = tlc.mkscratch('se-')
    pkgroot = os.path.join(scratch, 'pkgs')
    os.makedirs(pkgroot)
    sys.path.insert(0, pkgroot)
    traces, raw = [], {}
    try:
        for i, sc in enumerate(res.exports):
            cfg = sc['cfg']
            for noise in (False, True):
                name = NAMES[(i + seed) % len(NAMES)]
                pkg = 'vpkg_c10'
                d = os.path.join(pkgroot, pkg) if cfg['kind'] == 'pypkg' else os.path.join(scratch, 'dst')
                a = ask(cfg, name, d, noise, pkg, srctime=source_mtime(scratch, name))
                tid = 's%d%s' % (i, 'n' if noise else '')
                traces.append({'id': tid, 'cfg': cfg, 'answer': a})
                raw[tid] = (cfg, name, noise, a)
                out.evaluations += 1
                if cfg['kind'] != 'stub':
                    out.distinct.add(json.dumps(cfg, sort_keys=True))
        # a package that cannot be imported must answer "not found"
        from pysmi import error
        from pysmi.searcher import PyPackageSearcher
        try:
            PyPackageSearcher('no_such_pkg_c10').fileExists('TEST-MIB', SRC)
            out.violation('pypkg-not-importable', 'PyPackageSearcher on a non-importable package did not answer not-found', {})
        except error.PySmiFileNotFoundError:
            pass
    finally:
        sys.path.remove(pkgroot)
        sys.modules.pop('vpkg_c10', None)
    path = os.path.join(scratch, 'traces.json')
    with open(path, 'w') as fh:
        json.dump(traces, fh)
    vres = tlc.run('SearcherTrace', 't.cfg', files={'t.cfg': CFG % ('TInit', 'TNext') + 'INVARIANT Report\n'}, env={'TRACE_FILE': path}, workers=4)
    out.add_tlc(vres, 'SearcherTrace')
    verdicts = {v['id']: v for v in vres.exports}
    for t in traces:
        v = verdicts.get(t['id'])
        if v is None:
            out.machinery_errors.append('no verdict for %s' % t['id'])
            continue
        out.traces += 1
        cfg, name, noise, a = raw[t['id']]

        def show(e):
            return e['k'] if e['k'] != 'file' else 'file@src%+d%s%s' % ((e['t'] - 1) * 10, '' if e.get('magic', True) else ',badmagic', ',hash' if e.get('hash') else '')
        what = '%s searcher, rebuild=%s, %s, name=%s%s -> %s (model: %s)' % (
            cfg['kind'], cfg['rebuild'],
            ('M.json=%s M.txt=%s' % (show(cfg['e1']), show(cfg['e2']))) if cfg['kind'] == 'any' else
            ('M.py=%s M.pyc=%s' % (show(cfg['e1']), show(cfg['pyc']))) if cfg['kind'] != 'stub' else 'inlist=%s' % cfg['inlist'],
            name, ' +noise files' if noise else '', a, v['expected'])
        if out.traces % 97 == 1:
            out.sample({'case': what, 'verdict': v})
        if v['failed']:
            pyc = cfg['pyc']
            cls = 'other'
            if cfg['kind'] in ('py', 'pypkg') and pyc['k'] == 'file' and pyc['magic']:
                cls = 'pyc-header' if (not pyc['hash'] and pyc['t'] >= 1) else 'stale-pyc-hides-py'
            for f in v['failed']:
                out.violation('formula=%s;%s' % (f, cls), '%s fails: %s' % (f, what), {'kind': 'searcher', 'cfg': cfg, 'name': name, 'noise': noise, 'answer': a})
        elif v['refine'] != 'ok':
            out.add_drift(what)
    out.assumptions += ['the source time stamp is obtained through the real FileReader from a file with a sub-second mtime', 'directories are materialised with os.utime; .pyc headers are hand-built in the PEP 552 layout of the running interpreter',
                        'PyPackageSearcher is driven through its package-directory branch and the not-importable branch; the zipimport (egg) branch is not reached']


def replay(path):
    with open(path) as fh:
        rp = json.load(fh)['replay']
    sc = tlc.mkscratch('se-')
    print(ask(rp['cfg'], rp['name'], os.path.join(sc, 'dst'), rp['noise'], 'vpkg_c10', srctime=source_mtime(sc, rp['name'])))
