"""C06: references between objects (INDEX, AUGMENTS, OBJECTS/NOTIFICATIONS/VARIABLES, compliance groups) - specs/Refs.tla."""
import itertools
import json
import os
import random

from harness import tlc, mibs, render, par

BASE_MOD, MOD = 'BASE-T-MIB', 'REFS-MIB'
NAME = {('B', 'bIdx'): 'base-Idx', ('B', 'bScalar'): 'baseScalar', ('B', 'bNotif'): 'base-Notif', ('B', 'bGroup'): 'baseGroup', ('B', 'bRow'): 'baseEntry',
        ('L', 'c1'): 'col-One', ('L', 'c2'): 'colTwo', ('L', 'c3'): 'col3-x', ('L', 's1'): 'scalar-One', ('L', 'n1'): 'notif-One', ('L', 'n2'): 'notifTwo',
        ('L', 'g1'): 'grp-One', ('L', 'g2'): 'grpTwo', ('L', 'row'): 'my-Entry', ('L', 'table'): 'myTable', ('L', 'row2'): 'augEntry', ('L', 'table2'): 'aug-Table'}
PLAIN = {('B', 'bIdx'): 'baseIdx', ('B', 'bNotif'): 'baseNotif'}     # spellings without hyphen (see known finding on pysnmp imports)
REV = {(MOD if k[0] == 'L' else BASE_MOD, render.und(v)): {'m': k[0], 'o': k[1]} for k, v in list(NAME.items()) + list(PLAIN.items())}
_plain = [False]
BASE_TEXT = '''BASE-T-MIB DEFINITIONS ::= BEGIN
IMPORTS OBJECT-TYPE, NOTIFICATION-TYPE, Integer32, enterprises FROM SNMPv2-SMI
        OBJECT-GROUP FROM SNMPv2-CONF;
baseRoot OBJECT IDENTIFIER ::= { enterprises 500 }
baseTable OBJECT-TYPE SYNTAX SEQUENCE OF BaseEntry MAX-ACCESS not-accessible STATUS current DESCRIPTION "t" ::= { baseRoot 1 }
baseEntry OBJECT-TYPE SYNTAX BaseEntry MAX-ACCESS not-accessible STATUS current DESCRIPTION "e" INDEX { base-Idx } ::= { baseTable 1 }
BaseEntry ::= SEQUENCE { base-Idx Integer32, baseCol Integer32 }
base-Idx OBJECT-TYPE SYNTAX Integer32 (1..100) MAX-ACCESS not-accessible STATUS current DESCRIPTION "i" ::= { baseEntry 1 }
baseCol OBJECT-TYPE SYNTAX Integer32 MAX-ACCESS read-only STATUS current DESCRIPTION "c" ::= { baseEntry 2 }
baseScalar OBJECT-TYPE SYNTAX Integer32 MAX-ACCESS read-only STATUS current DESCRIPTION "s" ::= { baseRoot 2 }
base-Notif NOTIFICATION-TYPE OBJECTS { baseScalar } STATUS current DESCRIPTION "n" ::= { baseRoot 3 }
baseGroup OBJECT-GROUP OBJECTS { baseScalar, baseCol } STATUS current DESCRIPTION "g" ::= { baseRoot 4 }
END
'''
PERMS = list(itertools.permutations(['table', 'row', 'seq']))


def nm(r):
    k = (r['m'], r['o'])
    return PLAIN[k] if (_plain[0] and k in PLAIN) else NAME[k]


def base_text():
    t = BASE_TEXT
    if _plain[0]:
        for k, v in PLAIN.items():
            t = t.replace(NAME[k], v)
    return t


def build(aspect, sc, salt):
    _plain[0] = bool((salt // 2) % 2)
    imports = {'SNMPv2-SMI': ['OBJECT-TYPE', 'NOTIFICATION-TYPE', 'Integer32', 'enterprises'], 'SNMPv2-CONF': ['OBJECT-GROUP', 'NOTIFICATION-GROUP', 'MODULE-COMPLIANCE'],
               BASE_MOD: []}

    def imp(r):
        if r['m'] == 'B' and nm(r) not in imports[BASE_MOD]:
            imports[BASE_MOD].append(nm(r))
    root = {'k': 'value', 'name': 'refsRoot', 'oid': {'parent': 'enterprises', 'arcs': [[None, 600]]}}

    def ot(name, syntax, oid, access='read-only', **kw):
        d = {'k': 'objecttype', 'name': name, 'syntax': syntax, 'access': access, 'oid': oid}
        d.update(kw)
        return d
    s1 = ot(NAME[('L', 's1')], {'base': 'Integer32'}, {'parent': 'refsRoot', 'arcs': [[None, 9]]})
    decls = [root]
    if aspect == 'table':
        n = sc['ncols']
        cols = ['c1', 'c2', 'c3'][:n]
        for r in sc['index']:
            imp(r)
        index = [[bool(sc['implied'] and i == len(sc['index']) - 1), nm(r)] for i, r in enumerate(sc['index'])]
        # arcs of the two tables: numeric order and the order of the dotted strings differ for some representatives
        tarc, aarc = [(1, 2), (2, 10), (10, 4), (3, 20)][salt % 4]
        table = ot(NAME[('L', 'table')], {'seqof': 'MyEntry'}, {'parent': 'refsRoot', 'arcs': [[None, tarc]]}, access='not-accessible')
        row = ot(NAME[('L', 'row')], {'base': 'MyEntry'}, {'parent': NAME[('L', 'table')], 'arcs': [[None, 1]]}, access='not-accessible', index=index)
        seq = {'k': 'sequence', 'name': 'MyEntry', 'members': [[NAME[('L', c)], 'Integer32'] for c in cols]}
        coldecls = [ot(NAME[('L', c)], {'base': 'Integer32'}, {'parent': NAME[('L', 'row')], 'arcs': [[None, i + 1]]}) for i, c in enumerate(cols)]
        od = sc['order'] - 1
        block = [{'table': table, 'row': row, 'seq': seq}[x] for x in PERMS[od % 6]]
        block = (coldecls + block) if (od + salt) % 2 else (block + coldecls)
        decls += block
        if sc['second'] != 'none':
            if sc['second'] == 'augments-base':
                target = NAME[('B', 'bRow')]
                imp({'m': 'B', 'o': 'bRow'})
            else:
                target = NAME[('L', 'row')]
            t2 = ot(NAME[('L', 'table2')], {'seqof': 'AugEntry'}, {'parent': 'refsRoot', 'arcs': [[None, aarc]]}, access='not-accessible')
            r2 = ot(NAME[('L', 'row2')], {'base': 'AugEntry'}, {'parent': NAME[('L', 'table2')], 'arcs': [[None, 1]]}, access='not-accessible', augments=target)
            sq2 = {'k': 'sequence', 'name': 'AugEntry', 'members': [['augCol', 'Integer32']]}
            c2 = ot('augCol', {'base': 'Integer32'}, {'parent': NAME[('L', 'row2')], 'arcs': [[None, 1]]})
            extra = [t2, r2, sq2, c2]
            if salt % 3 == 0:
                extra = [r2, c2, sq2, t2]
            decls = decls + extra if salt % 2 else [decls[0]] + extra + decls[1:]
        decls.append(s1)
    elif aspect == 'list':
        decls.append(ot(NAME[('L', 'c1')], {'base': 'Integer32'}, {'parent': 'refsRoot', 'arcs': [[None, 8]]}))
        decls.append(s1)
        for r in sc['objs']:
            imp(r)
        objs = [nm(r) for r in sc['objs']]
        oid = {'parent': 'refsRoot', 'arcs': [[None, 20]]}
        for n_ in ('n1', 'n2'):
            decls.append({'k': 'notificationtype', 'name': NAME[('L', n_)], 'oid': {'parent': 'refsRoot', 'arcs': [[None, 30 + int(n_[1])]]}})
        if sc['what'] == 'notification':
            decls.append({'k': 'notificationtype', 'name': 'theThing', 'objects': objs, 'oid': oid})
        elif sc['what'] == 'objectgroup':
            decls.append({'k': 'objectgroup', 'name': 'theThing', 'objects': objs, 'oid': oid})
        elif sc['what'] == 'notifgroup':
            decls.append({'k': 'notificationgroup', 'name': 'theThing', 'objects': objs, 'oid': oid})
        else:
            imports['RFC-1215'] = ['TRAP-TYPE']
            decls.append({'k': 'traptype', 'name': 'theThing', 'enterprise': 'refsRoot', 'objects': objs, 'number': 7})
    else:
        decls.append(s1)
        for g in ('g1', 'g2'):
            decls.append({'k': 'objectgroup', 'name': NAME[('L', g)], 'objects': [NAME[('L', 's1')]], 'oid': {'parent': 'refsRoot', 'arcs': [[None, 40 + int(g[1])]]}})
        mods = []
        for p in sc:
            for r in p['mand']:
                imp(r)
            for it in p['items']:
                imp(it['r'])
            mods.append({'name': BASE_MOD if p['named'] else None, 'mandatory': [nm(r) for r in p['mand']],
                         'items': [[it['k'], nm(it['r'])] for it in p['items']]})
        decls.append({'k': 'modulecompliance', 'name': 'theThing', 'modules': mods, 'oid': {'parent': 'refsRoot', 'arcs': [[None, 20]]}})
    imps = []
    for k, v in imports.items():
        if k == BASE_MOD and len(v) >= 2 and salt % 2:
            # the same module may be named in several FROM clauses of one IMPORTS statement
            imps += [(k, v[:1]), ('SNMPv2-TC', ['DisplayString']), (k, v[1:])]
        elif v:
            imps.append((k, v))
    return {'name': MOD, 'imports': imps, 'decls': decls}


def ref_of(module, obj):
    return REV.get((module, render.und(obj)), {'m': '?' + str(module), 'o': str(obj)})


def replay_one(args):
    aspect, sc, salt, with_py, scratch = args
    mod = build(aspect, sc, salt)
    text = render.render_module(mod)
    texts = {MOD: text, BASE_MOD: base_text()}
    obs = {'status': '?', 'error': '', 'json': {}, 'py': {}, 'nodetype': {}}
    pj = mibs.Pipeline(texts, backend='json')
    rj = pj.compile(MOD)
    st = rj.get(MOD)
    obs['status'] = str(st)
    obs['error'] = str(getattr(st, 'error', ''))[:200]
    u = render.und

    def jrefs(lst):
        return [ref_of(x.get('module'), x.get('object')) for x in (lst or [])]
    if str(st) == 'compiled':
        doc, dups, err = render.observe_json(pj.written[MOD])
        if aspect == 'table':
            row = doc.get(u(NAME[('L', 'row')]), {})
            obs['json']['index'] = [dict(ref_of(x.get('module'), x.get('object')), implied=bool(x.get('implied'))) for x in row.get('indices', [])]
            obs['nodetype'] = {'table': doc.get(u(NAME[('L', 'table')]), {}).get('nodetype', '-'), 'row': row.get('nodetype', '-'),
                               's1': doc.get(u(NAME[('L', 's1')]), {}).get('nodetype', '-'),
                               'cols': [doc.get(u(NAME[('L', c)]), {}).get('nodetype', '-') for c in ('c1', 'c2', 'c3')[:sc['ncols']]],
                               'row2': doc.get(u(NAME[('L', 'row2')]), {}).get('nodetype', '-')}
            aug = doc.get(u(NAME[('L', 'row2')]), {}).get('augmention', {})
            # the JSON names the augmented row; its module is found through the imports of the document
            tgt = aug.get('object', '')
            tmod = BASE_MOD if tgt in [u(x) for x in doc.get('imports', {}).get(BASE_MOD, [])] else MOD
            obs['json']['augments'] = ref_of(tmod, tgt) if aug else {'m': '-', 'o': '-'}
        elif aspect == 'list':
            obs['json']['objs'] = jrefs(doc.get('theThing', {}).get('objects'))
        else:
            obs['json']['groups'] = jrefs(doc.get('theThing', {}).get('modulecompliance'))
        if with_py:
            pp = mibs.Pipeline(texts, backend='pysnmp')
            rp = pp.compile(MOD, BASE_MOD)
            syms, errs = render.load_pysnmp(pp.written, os.path.join(scratch, 'w%d' % os.getpid()), load_order=[MOD])
            if str(rp.get(MOD)) != 'compiled' or errs:
                obs['status'] = 'py-' + (str(rp.get(MOD)) if str(rp.get(MOD)) != 'compiled' else 'loaderror')
                obs['error'] = (str(getattr(rp.get(MOD), 'error', '')) + ' ' + ' '.join(errs.values()))[-400:]
            else:
                S = syms[MOD]

                def prefs(lst):
                    return [ref_of(m, o) for m, o in lst]
                try:
                    if aspect == 'table':
                        row = S[u(NAME[('L', 'row')])]
                        obs['py']['index'] = [dict(ref_of(m, o), implied=bool(i)) for i, m, o in row.getIndexNames()]
                        if sc['second'] != 'none':
                            r2 = S[u(NAME[('L', 'row2')])]
                            obs['py']['index2'] = [dict(ref_of(m, o), implied=bool(i)) for i, m, o in r2.getIndexNames()]
                            base = S[u(NAME[('L', 'row')])] if sc['second'] == 'augments-local' else syms[BASE_MOD][u(NAME[('B', 'bRow')])]
                            augs = list(getattr(base, 'augmentingRows', getattr(base, '_augmentingRows', [])))
                            hit = (MOD, u(NAME[('L', 'row2')])) in [tuple(a) for a in augs]
                            obs['py']['augments'] = ({'m': 'L', 'o': 'row'} if sc['second'] == 'augments-local' else {'m': 'B', 'o': 'bRow'}) if hit else {'m': '-', 'o': 'not-registered'}
                    elif aspect == 'list':
                        obs['py']['objs'] = prefs(S['theThing'].getObjects())
                    else:
                        obs['py']['groups'] = prefs(S['theThing'].getObjects())
                except Exception as exc:
                    obs['status'] = 'py-observe-error'
                    obs['error'] = '%s: %s' % (type(exc).__name__, exc)
    # complete the record so that the TLA+ side can address every field
    obs['json'].setdefault('index', []); obs['json'].setdefault('objs', []); obs['json'].setdefault('groups', []); obs['json'].setdefault('augments', {'m': '-', 'o': '-'})
    obs['py'].setdefault('index', []); obs['py'].setdefault('index2', []); obs['py'].setdefault('objs', []); obs['py'].setdefault('groups', []); obs['py'].setdefault('augments', {'m': '-', 'o': '-'})
    for k in ('table', 'row', 's1', 'row2'):
        obs['nodetype'].setdefault(k, '-')
    obs['nodetype'].setdefault('cols', [])
    return {'aspect': aspect, 'sc': sc, 'pysnmp': bool(with_py), 'obs': obs, 'text': text}


def run(out, prop, tier, seed, **kw):
    rnd = random.Random(seed)
    scratch = tlc.mkscratch('rf-')
    res = tlc.run('MC_Refs', 'g.cfg', files={'g.cfg': 'INIT Init\nNEXT Next\nINVARIANT Export\n'}, timeout=3000)
    out.add_tlc(res, 'Refs/all-aspects')
    scs = res.exports
    rnd.shuffle(scs)
    npy = 400 if tier == 'quick' else len(scs)
    jobs = [(e['aspect'], e['sc'], seed + i, i < npy, scratch) for i, e in enumerate(scs)]
    results = par.pmap(replay_one, jobs, chunk=8)
    traces, texts = [], {}
    for i, r in enumerate(results):
        tid = 'r%d' % i
        texts[tid] = r['text']
        r['id'] = tid
        traces.append(r)
        out.evaluations += 1
        out.distinct.add(json.dumps([r['aspect'], r['sc']], sort_keys=True))
    path = os.path.join(scratch, 'traces.json')
    with open(path, 'w') as fh:
        json.dump([{k: v for k, v in t.items() if k != 'text'} for t in traces], fh)
    vres = tlc.run('RefsTrace', 't.cfg', files={'t.cfg': 'INIT TInit\nNEXT TNext\nINVARIANT Report\n'}, env={'TRACE_FILE': path}, workers=8, timeout=3000)
    out.add_tlc(vres, 'RefsTrace')
    verdicts = {v['id']: v for v in vres.exports}
    for t in traces:
        v = verdicts.get(t['id'])
        if v is None:
            out.machinery_errors.append('no verdict for %s' % t['id'])
            continue
        out.traces += 1
        if out.traces % 501 == 1:
            out.sample({'aspect': t['aspect'], 'module': texts[t['id']], 'observed': t['obs'], 'failed': v['failed']})
        for f in v['failed']:
            out.violation('formula=%s;%s' % (f, classify(t)), '%s fails (%s %s) for\n%s' % (f, t['obs']['status'], t['obs']['error'][:200], texts[t['id']][:1500]),
                          {'kind': 'refs', 'aspect': t['aspect'], 'sc': t['sc'], 'text': texts[t['id']], 'obs': t['obs']})
    out.assumptions += ['REFS-MIB is rendered from the scenario, BASE-T-MIB is a fixed companion module; names carry hyphens and mixed case',
                        'pysnmp observations come from the real MibBuilder objects (getIndexNames, getObjects, registered augmentions) for a seeded sample',
                        'observed (module, object) pairs are mapped back to scenario references by the harness name table']


def classify(t):
    if t['obs']['status'] == 'py-loaderror' and 'FROM BASE-T-MIB' in t.get('text', '') and any(
            '-' in x for l in t['text'].splitlines() if 'FROM BASE-T-MIB' in l for x in l.split('FROM')[0].split(',')):
        return 'pysnmp-import-name'
    if t['aspect'] == 'compliance':
        items = [it['k'] for p in t['sc'] for it in p['items']]
        if 'object' in items and 'group' in items[items.index('object'):]:
            return 'compliance-object-before-group'
        if t['pysnmp'] and not t['obs']['py']['groups']:
            return 'pysnmp-compliance-objects-missing'
    return t['aspect']


def replay(path):
    with open(path) as fh:
        rp = json.load(fh)['replay']
    print(rp['text'])
    print(json.dumps(replay_one((rp['aspect'], rp['sc'], 0, True, tlc.mkscratch('rf-')))['obs'], indent=1))
