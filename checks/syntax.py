"""C02: the syntax tree is a faithful, layout-independent image of the text (specs/Syntax.tla)."""
import json
import os
import random

from harness import tlc, par

SPELL = {'@U64MAX': '18446744073709551615', '@I64MIN': '-9223372036854775808'}
BODIES = {
    '@MACROBODY': [' ::= BEGIN TYPE NOTATION ::= "x" { y } VALUE NOTATION ::= value(VALUE z) ', '::=BEGIN a b c ', ' ::= BEGIN -- odd { ( ;\t" stuff '],
    '@EXPORTSBODY': [' a, b, c;', ' a-one,\tBTwo -- c\t;', ' x ;'],
    '@CHOICEBODY': [' { a INTEGER, b OCTET STRING }', '{ x Y }', ' { simple SimpleSyntax, application-wide ApplicationSyntax }'],
}
FILL = {'SP': ' ', 'TAB': '\t', 'LF': '\n', 'CRLF': '\r\n', 'CR': '\r', 'CMTLF': ' -- a comment; with { } "quotes" and END\n', 'CMTCRLF': ' --c\r\n', 'LFLF': '\n\n', 'NONE': ''}
FILL2 = {'SP': '   ', 'TAB': ' \t ', 'LF': ' \n', 'CRLF': '\r\n ', 'CR': '\r\t', 'CMTLF': '\t--x\n', 'CMTCRLF': ' -- MACRO CHOICE EXPORTS words in a comment\r\n', 'LFLF': '\n \n', 'NONE': ''}
DIALECTS = ['smiV2', 'smiV1', 'smiV1Relaxed']
_parsers = {}


def parser(d):
    if d not in _parsers:
        from pysmi.parser.smi import parserFactory
        from pysmi.parser import dialect as D
        _parsers[d] = parserFactory(**getattr(D, d))()
    return _parsers[d]


def spell(tok, variant):
    if tok in BODIES:
        return BODIES[tok][variant % len(BODIES[tok])]
    return SPELL.get(tok, tok)


def render(toks, fills, variant=0, fillmap=FILL):
    out = []
    for i, t in enumerate(toks):
        out.append(spell(t, variant))
        if i < len(fills):
            out.append(fillmap[fills[i]])
    # a file may end right after END, with a line end, or inside a comment that has no line end
    return ''.join(out) + ('', '\n', ' -- trailing comment without line end')[variant % 3]


def norm(x):
    """parse() result -> the conventions of Tree(): None is "@None", numbers are ["@num", spelling], dicts are lists of pairs"""
    if x is None:
        return '@None'
    if isinstance(x, bool):
        return ['@num', '1' if x else '0']
    if isinstance(x, int):
        s = str(x)
        for k, v in SPELL.items():
            if s == v:
                s = k
        return ['@num', s]
    if isinstance(x, dict):
        return [[k, norm(v)] for k, v in x.items()]
    if isinstance(x, (list, tuple)):
        return [norm(y) for y in x]
    return x


def parse_with(d, text):
    from pysmi import error
    try:
        return True, norm(parser(d).parse(text)), ''
    except error.PySmiError as exc:
        return False, [], '%s: %s' % (type(exc).__name__, exc)
    except Exception as exc:
        return False, [], 'FOREIGN %s: %s' % (type(exc).__name__, exc)


def replay_one(args):
    sc, salt = args
    text = render(sc['toks'], sc['fills'], salt)
    # second rendering: other representatives of each filler class, rotated by one, other block bodies
    fills2 = sc['fills'][1:] + sc['fills'][:1]
    fills2 = [f if f != 'NONE' else 'SP' for f in fills2]
    text2 = render(sc['toks'], fills2, salt + 1, FILL2)
    obs = []
    for d in DIALECTS:
        ok, tree, err = parse_with(d, text)
        ok2, tree2, err2 = parse_with(d, text2)
        obs.append({'dialect': d, 'ok': ok, 'tree': tree, 'ok2': ok2, 'tree2': tree2, 'err': err or err2})
    return {'file': sc['file'], 'offset': sc['offset'], 'toks': sc['toks'], 'fills': sc['fills'], 'obs': obs, 'text': text}


CFG = 'CONSTANTS\n  MaxDecls = %d\n  MaxMods = %d\n  ShapePool <- %s\nINIT %s\nNEXT %s\n'


def scenarios(out, tier, seed):
    res = tlc.run('MC_Syntax', 'g.cfg', files={'g.cfg': CFG % (1, 1, 'Shapes', 'Init', 'Next') + 'INVARIANT Export\n'}, timeout=3000)
    out.add_tlc(res, 'Syntax/one-declaration-all-shapes')
    single = res.exports
    res2 = tlc.run('MC_Syntax', 'g.cfg', files={'g.cfg': CFG % (2, 2, 'Reps', 'Init', 'Next') + 'INVARIANT Export\n'}, timeout=3000)
    out.add_tlc(res2, 'Syntax/files-of-representatives')
    multi = [e for e in res2.exports if e['nmods'] > 1 or len(e['kinds'][0]) > 1]
    return single, multi


def run(out, prop, tier, seed, **kw):
    rnd = random.Random(seed)
    scratch = tlc.mkscratch('sy-')
    single, multi = scenarios(out, tier, seed)
    out.extra['scenarios_exported'] = {'single': len(single), 'multi': len(multi)}
    rnd.shuffle(single)
    rnd.shuffle(multi)
    if tier == 'quick':
        single, multi = single[:3000], multi[:1000]
    results = par.pmap(replay_one, [(sc, seed + i) for i, sc in enumerate(single + multi)], chunk=32)
    traces = []
    for i, r in enumerate(results):
        r['id'] = 's%d' % i
        traces.append(r)
        out.evaluations += 1
        out.distinct.add(json.dumps([r['toks'], r['fills']]))
    verdicts = {}
    for lo in range(0, len(traces), 4000):          # batches of 4000 traces per TLC run
        path = os.path.join(scratch, 'traces.json')
        with open(path, 'w') as fh:
            json.dump([{k: v for k, v in t.items() if k != 'text'} for t in traces[lo:lo + 4000]], fh)
        vres = tlc.run('SyntaxTrace', 't.cfg', files={'t.cfg': CFG % (9, 9, 'Reps', 'TInit', 'TNext') + 'INVARIANT Report\n'}, env={'TRACE_FILE': path}, workers=8, timeout=6000)
        out.add_tlc(vres, 'SyntaxTrace/%d' % lo)
        verdicts.update({v['id']: v for v in vres.exports})
    for t in traces:
        v = verdicts.get(t['id'])
        if v is None:
            out.machinery_errors.append('no verdict for %s' % t['id'])
            continue
        out.traces += 1
        if out.traces % 997 == 1:
            out.sample({'text': t['text'], 'accepted_by': [o['dialect'] for o in t['obs'] if o['ok']], 'failed': v['failed']})
        for f in v['failed']:
            errs = '; '.join('%s: %s' % (o['dialect'], o['err']) for o in t['obs'] if o['err'])
            out.violation('formula=%s;%s' % (f, classify(t, f)), '%s fails (%s) for text %r' % (f, errs[:200], t['text'][:700]),
                          {'kind': 'syntax', 'file': t['file'], 'offset': t['offset'], 'text': t['text'], 'obs': t['obs']})
    out.assumptions += ['the text is the concatenation of the model\'s tokens and fillers (checked by TextIsModel); block bodies and filler representatives come from harness tables',
                        'comment fillers contain no inner "--"; block bodies avoid END / ; / } inside (DESIGN triage classes)',
                        'coverage is the abstract syntax of Syntax.tla, not every text PLY accepts']


def classify(t, f):
    kinds = sorted(set(d['k'] for m in t['file'] for d in m['decls']))
    return ','.join(kinds)[:60]


def replay(path):
    with open(path) as fh:
        rp = json.load(fh)['replay']
    print(rp['text'])
    for d in DIALECTS:
        print(d, parse_with(d, rp['text']))
