"""C04: generated pysnmp modules are valid Python, load together and agree with the JSON backend (specs/PysnmpLoad.tla)."""
import json
import os
import random
import shutil

from harness import tlc, mibs, render, par
from checks import oidtree, decls, types, refs

SMI2PY = {'INTEGER': 'Integer32', 'OCTET STRING': 'OctetString', 'OBJECT IDENTIFIER': 'ObjectIdentifier', 'Bits': 'Bits', 'BITS': 'Bits',
          'Counter': 'Counter32', 'Gauge': 'Gauge32', 'NetworkAddress': 'IpAddress'}
KIND = {'MibScalar': 'scalar', 'MibTable': 'table', 'MibTableRow': 'row', 'MibTableColumn': 'column', 'ObjectIdentity': 'objectidentity',
        'MibIdentifier': 'objectidentity', 'NotificationType': 'notificationtype', 'ObjectGroup': 'objectgroup', 'NotificationGroup': 'notificationgroup',
        'ModuleCompliance': 'modulecompliance', 'AgentCapabilities': 'agentcapabilities', 'ModuleIdentity': 'moduleidentity'}


def instrumented_load(texts, scratch, order):
    """Load generated modules with a MibBuilder that records begin/import/export/end events."""
    from pysnmp.smi import builder, error as smierror
    d = os.path.join(scratch, 'pymibs')
    shutil.rmtree(d, ignore_errors=True)
    os.makedirs(d)
    for mod, text in texts.items():
        with open(os.path.join(d, mod + '.py'), 'w') as fh:
            fh.write(text)
    events, imports, exports = [], [], {}

    class Rec(builder.MibBuilder):
        stack = []

        def load_module(self, modName, **ctx):
            gen = modName in texts
            if gen:
                events.append(['begin', modName])
                Rec.stack.append(modName)
            try:
                r = builder.MibBuilder.load_module(self, modName, **ctx)
                if gen:
                    events.append(['end', modName])
                return r
            except Exception:
                if gen:
                    events.append(['fail', modName])
                raise
            finally:
                if gen:
                    Rec.stack.pop()

        def import_symbols(self, modName, *symNames, **ctx):
            cur = Rec.stack[-1] if Rec.stack else '-'
            if cur != '-':
                for s in symNames:
                    imports.append({'by': cur, 'from': modName, 'sym': s, 'generated': modName in texts})
            return builder.MibBuilder.import_symbols(self, modName, *symNames, **ctx)

        def export_symbols(self, modName, *anon, **named):
            if modName in texts:
                exports.setdefault(modName, []).extend(named.keys())
            return builder.MibBuilder.export_symbols(self, modName, *anon, **named)
    mb = Rec()
    mb.loadTexts = True
    mb.add_mib_sources(builder.DirMibSource(d))
    errors = {}
    for mod in order:
        try:
            mb.load_modules(mod)
        except Exception as exc:
            errors[mod] = ' '.join(str(exc).split())[-400:]
    syms = {m: dict(mb.mibSymbols.get(m, {})) for m in texts}
    return events, imports, exports, errors, syms


def jbase(entry):
    t = entry.get('syntax', {}).get('type') if isinstance(entry.get('syntax'), dict) else None
    return SMI2PY.get(t, t) if t else '-'


def pbase(obj):
    try:
        syn = obj.getSyntax()
    except Exception:
        return '-'
    cls = type(syn)
    name = cls.__name__
    if name.startswith('_'):
        name = cls.__mro__[1].__name__
    return name


def replay_one(args):
    family, sc, salt, scratch = args
    if family == 'oidtree':
        mods, _ = oidtree.build_modules(sc, salt)
        texts = {m['name']: render.render_module(m) for m in mods.values()}
    elif family == 'decls':
        mod, _ = decls.build(sc, salt)
        texts = {'DECLS-MIB': render.render_module(mod)}
    elif family == 'types':
        mods = types.build(sc['aspect'], sc['sc'], salt)
        texts = {n: render.render_module(m) for n, m in mods.items()}
    else:
        texts = {refs.MOD: render.render_module(refs.build(sc['aspect'], sc['sc'], salt)), refs.BASE_MOD: refs.base_text()}
    names = sorted(texts)
    pj = mibs.Pipeline(texts, backend='json')
    rj = pj.compile(*names)
    pp = mibs.Pipeline(texts, backend='pysnmp')
    rp = pp.compile(*names)
    tr = {'family': family, 'mods': [], 'imports': [], 'syms': [], 'cyclic': False, 'texts': texts, 'errors': {}}
    if any(str(rj.get(n)) != 'compiled' for n in names):
        tr['skipped'] = 'json backend did not compile: ' + '; '.join(str(getattr(rj.get(n), 'error', '')) for n in names)[:200]
        return tr
    order = list(names)
    random.Random(salt).shuffle(order)
    events, imports, exports, errors, syms = instrumented_load({n: pp.written[n] for n in names if n in pp.written}, os.path.join(scratch, 'w%d' % os.getpid()), order)
    # import cycles between the generated modules (from the import events / texts)
    graph = {n: set() for n in names}
    for n in names:
        doc = json.loads(pj.written[n])
        for m in doc.get('imports', {}):
            if m in graph and m != n:
                graph[n].add(m)

    def reach(a, seen):
        for b in graph[a]:
            if b not in seen:
                seen.add(b)
                reach(b, seen)
        return seen
    tr['cyclic'] = any(n in reach(n, set()) for n in names)
    for n in names:
        text = pp.written.get(n)
        comp, nameerr = True, False
        if text is None:
            comp = False
            errors.setdefault(n, 'pysnmp backend: ' + str(getattr(rp.get(n), 'error', rp.get(n))))
        else:
            try:
                compile(text, n, 'exec')
            except SyntaxError as exc:
                comp = False
                errors[n] = 'SyntaxError: %s' % exc
        e = errors.get(n, '')
        nameerr = 'NameError' in e
        tr['mods'].append({'name': n, 'compilable': comp, 'loaded': n not in errors and ['end', n] in events, 'nameerror': nameerr})
    tr['errors'] = errors
    for im in imports:
        if im['generated']:
            tr['imports'].append({'by': im['by'], 'from': im['from'], 'sym': im['sym'], 'generated': True, 'exports': sorted(set(exports.get(im['from'], []))),
                                  'from_loaded': ['end', im['from']] in events})
    for n in names:
        doc = json.loads(pj.written[n])
        loaded = n not in errors and ['end', n] in events
        for key, e in doc.items():
            if key in ('imports', 'meta') or not isinstance(e, dict):
                continue
            cls = e.get('class')
            if cls not in ('objecttype', 'objectidentity', 'notificationtype', 'objectgroup', 'notificationgroup', 'modulecompliance', 'agentcapabilities',
                           'moduleidentity', 'textualconvention', 'type'):
                continue
            o = syms.get(n, {}).get(key)
            s = {'mod': n, 'name': key, 'cls': cls, 'modloaded': loaded, 'exported': o is not None,
                 'joid': [int(x) for x in e['oid'].split('.')] if e.get('oid') else [], 'poid': [],
                 'jkind': e.get('nodetype', cls) if cls == 'objecttype' else cls, 'pkind': '-',
                 'jbase': jbase(e) if cls == 'objecttype' else '-', 'pbase': '-', 'jaccess': e.get('maxaccess', '-'), 'paccess': '-'}
            if o is not None:
                if cls in ('textualconvention', 'type'):
                    s['pkind'] = cls if isinstance(o, type) else '?instance'
                    s['jkind'] = cls
                else:
                    try:
                        s['poid'] = [int(x) for x in o.getName()]
                    except Exception:
                        pass
                    s['pkind'] = KIND.get(type(o).__name__, type(o).__name__)
                    if cls == 'objecttype' and s['jkind'] in ('scalar', 'column'):
                        s['pbase'] = pbase(o)
                        try:
                            s['paccess'] = o.getMaxAccess()
                        except Exception:
                            pass
                    else:
                        s['jbase'] = '-'
                        s['jaccess'] = '-'
            tr['syms'].append(s)
    return tr


def run(out, prop, tier, seed, **kw):
    rnd = random.Random(seed)
    scratch = tlc.mkscratch('pl-')
    # design level: the loader machine itself
    cfg = 'CONSTANTS\n  Gen <- G3\n  WantsChoices <- WantsSet\n  Exports <- ExportsDef\n  OrderChoices <- Orders\nINIT Init\nNEXT Next\nINVARIANT LoadsTogether\nINVARIANT FailsWhenMissing\n'
    res = tlc.run('MC_PysnmpLoad', 'g.cfg', files={'g.cfg': cfg}, timeout=3000)
    out.add_tlc(res, 'PysnmpLoad/3-modules')
    # scenario families exported by the other models
    fam = []
    r1 = tlc.run('MC_OidTree', 'g.cfg', files={'g.cfg': oidtree.CFG % (2, 2, 'KAll', 'Arcs1', 'RTwo', 'Init', 'Next') + 'INVARIANT Export\n'}, timeout=3000)
    out.add_tlc(r1, 'OidTree/kinds-for-C04')
    fam += [('oidtree', e) for e in r1.exports]
    r1b = tlc.run('MC_OidTree', 'g.cfg', files={'g.cfg': oidtree.CFG % (2, 4, 'KTab', 'Arcs1', 'RTwo', 'Init', 'Next') + 'INVARIANT Export\n'}, timeout=3000)
    out.add_tlc(r1b, 'OidTree/tables-for-C04')
    tabs = r1b.exports
    rnd.shuffle(tabs)
    fam += [('oidtree', e) for e in tabs[:1500]]
    r2 = tlc.run('MC_Decls', 'g.cfg', files={'g.cfg': decls.CFG % (2, 'KAll', 'St1', 'Ac2', 'Revs1', 'Init', 'Next') + 'INVARIANT Export\n'}, timeout=3000)
    out.add_tlc(r2, 'Decls/pairs-for-C04')
    fam += [('decls', e) for e in r2.exports]
    r3 = tlc.run('MC_Types', 'g.cfg', files={'g.cfg': 'INIT Init\nNEXT Next\nINVARIANT Export\n'}, timeout=3000)
    out.add_tlc(r3, 'Types/for-C04')
    fam += [('types', e) for e in r3.exports if e['aspect'] in ('chain', 'named', 'defval') and types.legal(e['aspect'], e['sc'])]
    r4 = tlc.run('MC_Refs', 'g.cfg', files={'g.cfg': 'INIT Init\nNEXT Next\nINVARIANT Export\n'}, timeout=3000)
    out.add_tlc(r4, 'Refs/for-C04')
    fam += [('refs', e) for e in r4.exports]
    out.extra['scenarios_available'] = len(fam)
    rnd.shuffle(fam)
    n = 360 if tier == 'quick' else 12000
    # stratified: the same number of scenarios from every (family, aspect / shape) stratum, round robin
    strata = {}
    for f, sc in fam:
        key = (f, sc.get('aspect', ''), (sc.get('sc') or {}).get('second', '') if isinstance(sc.get('sc'), dict) else '',
               len(sc.get('nodes', [])) if f == 'oidtree' else 0)
        strata.setdefault(key, []).append((f, sc))
    picked, keys = [], sorted(strata, key=str)
    while len(picked) < n and any(strata[k] for k in keys):
        for k in keys:
            if strata[k] and len(picked) < n:
                picked.append(strata[k].pop())
    out.extra['strata'] = len(keys)
    jobs = [(f, sc, seed + i, scratch) for i, (f, sc) in enumerate(picked)]
    results = par.pmap(replay_one, jobs, chunk=4)
    traces = []
    for i, r in enumerate(results):
        if r.get('skipped'):
            out.notes.append(r['skipped'])
            continue
        r['id'] = 'l%d' % i
        traces.append(r)
        out.evaluations += 1
        out.distinct.add(json.dumps(sorted(r['texts'].items())))
    path = os.path.join(scratch, 'traces.json')
    with open(path, 'w') as fh:
        json.dump([{k: v for k, v in t.items() if k not in ('texts', 'errors', 'family')} for t in traces], fh)
    vres = tlc.run('PysnmpLoadTrace', 't.cfg', files={'t.cfg': 'INIT Init\nNEXT Next\nINVARIANT Report\n'}, env={'TRACE_FILE': path}, workers=8, timeout=3000)
    out.add_tlc(vres, 'PysnmpLoadTrace')
    verdicts = {v['id']: v for v in vres.exports}
    for t in traces:
        v = verdicts.get(t['id'])
        if v is None:
            out.machinery_errors.append('no verdict for %s' % t['id'])
            continue
        out.traces += 1
        if out.traces % 211 == 1:
            out.sample({'family': t['family'], 'modules': t['texts'], 'loaded': [m['name'] for m in t['mods'] if m['loaded']], 'symbols_compared': len(t['syms']), 'failed': v['failed']})
        for f in v['failed']:
            out.violation('%s;formula=%s' % (classify(t, f), f), '%s fails (%s) for\n%s' % (f, json.dumps(t['errors'])[:400] or witness(t, f), '\n'.join(t['texts'].values())[:1500]),
                          {'kind': 'pysnmpload', 'family': t['family'], 'texts': t['texts'], 'errors': t['errors'], 'mods': t['mods'],
                           'bad_syms': [s for s in t['syms'] if s['modloaded'] and (not s['exported'] or s['joid'] != s['poid'] or s['jkind'] != s['pkind'] or s['jbase'] != s['pbase'] or s['jaccess'] != s['paccess'])][:6]})
    out.assumptions += ['module sets come from the scenario models of C01, C03, C05 and C06 (all declaration kinds, cross-module imports of every symbol kind, type chains, tables)',
                        'the loader events are recorded from the real pysnmp MibBuilder (load_module / import_symbols / export_symbols overridden to log)',
                        'module sets with import cycles cannot be loaded by pysnmp whatever the text (platform limit); they are judged on everything but LoadsTogether']


def witness(t, f):
    return ''


def classify(t, f):
    e = ' '.join(t['errors'].values())
    if f == 'DefinesAndExportsAll':
        bad = [s for s in t['syms'] if s['modloaded'] and not s['exported']]
        if bad and all(s['cls'] == 'type' for s in bad):
            return 'plain-type-not-exported'
    if f == 'AgreesWithJson':
        bad = [s for s in t['syms'] if s['modloaded'] and s['exported'] and (s['joid'] != s['poid'] or s['jkind'] != s['pkind'] or s['jbase'] != s['pbase'] or s['jaccess'] != s['paccess'])]
        return 'agree;' + ','.join(sorted(set(('oid' if s['joid'] != s['poid'] else 'kind' if s['jkind'] != s['pkind'] else 'base' if s['jbase'] != s['pbase'] else 'access') for s in bad)))
    if 'SyntaxError' in e and ('(if,)' in e or '(class,)' in e or 'importSymbols' in e):
        return 'pysnmp-import-name'
    if 'method resolution' in e:
        return 'tc-of-tc-mro'
    if 'is not defined' in e:
        w = mibs.type_order_witness(t['texts'], e)
        # the open finding covers the orders the MIB itself asks for; a generator that reorders well-ordered types is new
        return 'type-used-before-definition' if w in ('declared-before-parent', 'plain-from-tc') else 'type-emitted-out-of-order;' + w
    if 'Jinja template' in e or ('not found in search path' in e and 'BITS' in json.dumps(t['texts']) and 'DEFVAL' in json.dumps(t['texts'])):
        return 'bits-defval-template'
    if 'No symbol' in e or f == 'ImportOnlyExported':
        unsafe = any(('-' in i['sym'] or i['sym'] in ('if', 'class')) and i['sym'] not in i['exports'] for i in t['imports'])
        if unsafe:
            return 'pysnmp-import-name'
        if any(i['sym'] not in i['exports'] for i in t['imports']):
            return 'plain-type-not-exported' if any(i['sym'][0].isupper() and i['sym'] not in i['exports'] for i in t['imports']) else 'import-other'
    if 'SyntaxError' in e:
        return 'pysnmp-import-name' if '(if,)' in json.dumps(t['texts']) or 'invalid syntax' in e else 'syntaxerror'
    return 'other'


def replay(path):
    with open(path) as fh:
        rp = json.load(fh)['replay']
    print(json.dumps({k: rp[k] for k in ('errors', 'mods', 'bad_syms')}, indent=1)[:3000])
