"""C15: descriptive texts through both code generators (specs/Texts.tla)."""
import json
import os
import random
import re

from harness import tlc, mibs, render, par

REP = {'W1': 'alpha', 'W2': 'Beta9', 'N': 'n', 'SP': ' ', 'TAB': '\t', 'LF': '\n', 'CRLF': '\r\n', 'CR': '\r', 'BSL': '\\', 'APOS': "'",
       'TRIAPOS': "'''", 'NONASCII': u'é☃', 'LONG': 'x' * 90, 'BRACE': '{x}', 'PCT': '%s', 'HASH': '#'}
ALT = {'W1': 'gamma', 'W2': 'Delta7', 'NONASCII': u'ü中', 'BRACE': '{y}'}      # second representatives (by salt)
MOD = 'TEXTS-MIB'
PLAIN = 'plain text'


# the LONG word comes in several lengths (by salt): around the wrap width of the pysnmp template (79), so that what
# follows it - an escaped backslash, an escaped line break - can land exactly on the wrap position
LONG_LENS = [90, 78, 157, 77, 76]


def long_len(salt):
    return LONG_LENS[salt % len(LONG_LENS)]


def concrete(classes, salt):
    return ''.join(('x' * long_len(salt)) if c == 'LONG' else (ALT.get(c, REP[c]) if (salt + i) % 2 else REP[c])
                   for i, c in enumerate(classes))


def canon(classes):
    out = []
    for c in classes:
        out += ['APOS'] * 3 if c == 'TRIAPOS' else (['CR', 'LF'] if c == 'CRLF' else [c])
    return out


SINGLE = {' ': 'SP', '\t': 'TAB', '\n': 'LF', '\r': 'CR', '\\': 'BSL', "'": 'APOS', '#': 'HASH', 'n': 'N'}
MULTI = [(v, k) for k, v in list(REP.items()) + list(ALT.items()) if len(v) > 1 and k not in ('LONG', 'CRLF', 'TRIAPOS')]
MULTI.sort(key=lambda x: -len(x[0]))


def unwrap(observed, original):
    """Reading of "equal up to whitespace" for wrapped output: white space that line wrapping inserted INSIDE a word longer
    than the line is removed again (the word is found in the observed string with optional white space between its
    characters).  Nothing else is touched: a character that is added, dropped or replaced keeps the strings apart."""
    for w in sorted(set(re.findall(r'\S{70,}', original)), key=len, reverse=True):
        rx = r'\s*'.join(re.escape(ch) for ch in w)
        observed = re.sub(rx, lambda m: w, observed, count=1)
    return observed


def tokenize(s, L=90):
    """observed string -> class sequence (canonical: TRIAPOS and CRLF expanded); a LONG word broken by white space is re-joined"""
    out, i = [], 0
    while i < len(s):
        m = re.match(r'x+', s[i:])
        if m:
            out.append(('X', len(m.group(0))))
            i += len(m.group(0))
            continue
        for rep, cls in MULTI:
            if s.startswith(rep, i):
                out.append(cls)
                i += len(rep)
                break
        else:
            out.append(SINGLE.get(s[i], '?%04x' % ord(s[i])))
            i += 1
    # re-join x runs
    res, j = [], 0
    while j < len(out):
        if isinstance(out[j], tuple):
            total, k, notes = out[j][1], j + 1, 0
            while total % L and k + 1 < len(out) and out[k] in ('SP', 'LF', 'TAB', 'CR') and isinstance(out[k + 1], tuple):
                total += out[k + 1][1]
                k += 2
                notes += 1
            if total and total % L == 0:
                res += ['LONG'] * (total // L)
                j = k
                continue
            res.append('?x%d' % out[j][1])
            j += 1
        else:
            res.append(out[j])
            j += 1
    return res


def build(sc, salt):
    text = concrete(sc['text'], salt)
    t = {c: PLAIN for c in ('DESCRIPTION', 'REFERENCE', 'ORGANIZATION', 'CONTACT-INFO', 'UNITS', 'DISPLAY-HINT', 'PRODUCT-RELEASE', 'REVDESC')}
    t[sc['clause']] = text
    hint = t['DISPLAY-HINT'] if sc['clause'] == 'DISPLAY-HINT' else '255a'
    rel = t['PRODUCT-RELEASE'] if sc['clause'] == 'PRODUCT-RELEASE' else 'release 1'
    return '''TEXTS-MIB DEFINITIONS ::= BEGIN
IMPORTS MODULE-IDENTITY, OBJECT-TYPE, Integer32, enterprises FROM SNMPv2-SMI
        TEXTUAL-CONVENTION FROM SNMPv2-TC
        AGENT-CAPABILITIES FROM SNMPv2-CONF;

textsMib MODULE-IDENTITY
    LAST-UPDATED "200001010000Z"
    ORGANIZATION "%s"
    CONTACT-INFO "%s"
    DESCRIPTION "%s"
    REVISION "200001010000Z"
    DESCRIPTION "%s"
    ::= { enterprises 800 }

TextTC ::= TEXTUAL-CONVENTION
    DISPLAY-HINT "%s"
    STATUS current
    DESCRIPTION "tc"
    SYNTAX OCTET STRING (SIZE (0..255))

textObject OBJECT-TYPE
    SYNTAX Integer32
    UNITS "%s"
    MAX-ACCESS read-only
    STATUS current
    DESCRIPTION "%s"
    REFERENCE "%s"
    ::= { textsMib 1 }

textCaps AGENT-CAPABILITIES
    PRODUCT-RELEASE "%s"
    STATUS current
    DESCRIPTION "caps"
    ::= { textsMib 2 }

END
''' % (t['ORGANIZATION'], t['CONTACT-INFO'], PLAIN if sc['clause'] != 'DESCRIPTION' else 'module', t['REVDESC'], hint, t['UNITS'],
       t['DESCRIPTION'], t['REFERENCE'], rel), text


JSON_AT = {'DESCRIPTION': ('textObject', 'description'), 'REFERENCE': ('textObject', 'reference'), 'ORGANIZATION': ('textsMib', 'organization'),
           'CONTACT-INFO': ('textsMib', 'contactinfo'), 'UNITS': ('textObject', 'units'), 'DISPLAY-HINT': ('TextTC', 'displayhint'),
           'PRODUCT-RELEASE': ('textCaps', 'productrelease')}
PY_AT = {'DESCRIPTION': ('textObject', 'getDescription'), 'REFERENCE': ('textObject', 'getReference'), 'ORGANIZATION': ('textsMib', 'getOrganization'),
         'CONTACT-INFO': ('textsMib', 'getContactInfo'), 'UNITS': ('textObject', 'getUnits'), 'DISPLAY-HINT': ('TextTC', 'getDisplayHint'),
         'PRODUCT-RELEASE': ('textCaps', 'getProductRelease')}


def replay_one(args):
    sc, salt, with_py, scratch = args
    text, concrete_text = build(sc, salt)
    opts = {'genTexts': bool(sc['genTexts'])}
    if sc['filter'] == 'identity':
        opts['textFilter'] = lambda symbol, t: t
    obs = {'status': '?', 'error': '', 'json': {'present': False, 'text': []}, 'py': {'present': False, 'text': [], 'loads': True}}
    pj = mibs.Pipeline({MOD: text}, backend='json')
    rj = pj.compile(MOD, **opts)
    obs['status'] = str(rj.get(MOD))
    obs['error'] = str(getattr(rj.get(MOD), 'error', ''))[:200]
    if obs['status'] == 'compiled':
        doc, dups, err = render.observe_json(pj.written[MOD])
        if doc is None:
            obs['status'] = 'json-unparsable'
        else:
            if sc['clause'] == 'REVDESC':
                revs = doc.get('textsMib', {}).get('revisions', [])
                v = revs[0].get('description') if revs else None
            else:
                sym, key = JSON_AT[sc['clause']]
                v = doc.get(sym, {}).get(key)
            if v is not None and not (sc['clause'] == 'DESCRIPTION' and False):
                obs['json'] = {'present': True, 'text': tokenize(v, long_len(salt))}
        if with_py:
            pp = mibs.Pipeline({MOD: text}, backend='pysnmp')
            rp = pp.compile(MOD, **opts)
            if str(rp.get(MOD)) != 'compiled':
                obs['py']['loads'] = False
                obs['error'] = 'pysnmp: ' + str(getattr(rp.get(MOD), 'error', ''))[:200]
            else:
                try:
                    compile(pp.written[MOD], MOD, 'exec')
                except SyntaxError as exc:
                    obs['py']['loads'] = False
                    obs['error'] = 'SyntaxError: %s' % exc
                if obs['py']['loads'] and sc['clause'] != 'REVDESC':
                    syms, errs = render.load_pysnmp(pp.written, os.path.join(scratch, 'w%d' % os.getpid()))
                    if errs:
                        obs['py']['loads'] = False
                        obs['error'] = ' '.join(errs.values())[-250:]
                    else:
                        sym, meth = PY_AT[sc['clause']]
                        o = syms[MOD].get(sym)
                        try:
                            if sc['clause'] == 'DISPLAY-HINT':
                                v = getattr(o, 'displayHint', None) if o is not None else None
                                default_hint = None
                            else:
                                v = getattr(o, meth)() if o is not None else None
                            if v not in (None, ''):
                                obs['py'] = {'present': True, 'text': tokenize(unwrap(v if isinstance(v, str) else v.decode('utf-8'), concrete_text), long_len(salt)), 'loads': True}
                        except Exception as exc:
                            obs['error'] = 'observe: %s %s' % (type(exc).__name__, exc)
    sc2 = dict(sc)
    sc2['text'] = canon(sc['text'])
    return {'sc': sc2, 'raw': sc['text'], 'pysnmp': bool(with_py), 'obs': obs, 'concrete': concrete_text}


def run(out, prop, tier, seed, **kw):
    rnd = random.Random(seed)
    scratch = tlc.mkscratch('tx-')
    maxlen = 2 if tier == 'quick' else 3
    res = tlc.run('MC_Texts', 'g.cfg', files={'g.cfg': 'CONSTANTS\n  MaxLen = %d\n  TextClasses <- AllC\nINIT Init\nNEXT Next\nINVARIANT Export\n' % maxlen}, timeout=3000)
    out.add_tlc(res, 'Texts/len<=%d' % maxlen)
    scs = res.exports
    out.extra['scenarios_exported'] = len(scs)
    rnd.shuffle(scs)
    njson, npy = (3500, 400) if tier == 'quick' else (40000, 4000)
    scs = scs[:njson]
    results = par.pmap(replay_one, [(sc, seed + i, i < npy, scratch) for i, sc in enumerate(scs)], chunk=8)
    traces = []
    for i, r in enumerate(results):
        r['id'] = 'x%d' % i
        traces.append(r)
        out.evaluations += 1
        if r['raw']:
            out.distinct.add(json.dumps([r['sc']['clause'], r['sc']['genTexts'], r['sc']['filter'], r['raw']]))
    path = os.path.join(scratch, 'traces.json')
    with open(path, 'w') as fh:
        json.dump([{k: v for k, v in t.items() if k not in ('concrete', 'raw')} for t in traces], fh)
    vres = tlc.run('TextsTrace', 't.cfg', files={'t.cfg': 'CONSTANTS\n  MaxLen = 9\n  TextClasses = {}\nINIT TInit\nNEXT TNext\nINVARIANT Report\n'}, env={'TRACE_FILE': path}, workers=8, timeout=3000)
    out.add_tlc(vres, 'TextsTrace')
    verdicts = {v['id']: v for v in vres.exports}
    for t in traces:
        v = verdicts.get(t['id'])
        if v is None:
            out.machinery_errors.append('no verdict for %s' % t['id'])
            continue
        out.traces += 1
        if out.traces % 577 == 1:
            out.sample({'clause': t['sc']['clause'], 'genTexts': t['sc']['genTexts'], 'filter': t['sc']['filter'], 'text_classes': t['raw'], 'text': t['concrete'],
                        'observed': t['obs'], 'failed': v['failed']})
        for f in v['failed']:
            out.violation('formula=%s;%s' % (f, classify(t, f)), '%s fails: clause=%s genTexts=%s filter=%s text=%r classes=%s -> json=%s py=%s %s' % (
                f, t['sc']['clause'], t['sc']['genTexts'], t['sc']['filter'], t['concrete'], t['raw'], t['obs']['json'], t['obs']['py'], t['obs']['error'][:150]),
                {'kind': 'texts', 'sc': dict(t['sc'], text=t['raw']), 'obs': t['obs']})
    out.assumptions += ['texts are sequences of character classes with concrete representatives chosen by the harness; observed strings are tokenised back into classes',
                        'a line break that the wrapping filter inserts inside a word longer than the line is treated as whitespace (re-joined by the tokeniser)',
                        'revision descriptions are not part of pysnmp output (dates only) and are compared in JSON only']


def classify(t, f):
    cl, raw = t['sc']['clause'], t['raw']
    if f in ('PysnmpEqual', 'AlwaysCompilable'):
        why = 'backslash' if 'BSL' in raw else ('line-break-in-single-line-literal' if any(c in raw for c in ('LF', 'CRLF', 'CR')) else
                                               ('long-word' if 'LONG' in raw else 'other'))
        where = 'triple-quoted' if cl in ('DESCRIPTION', 'REFERENCE', 'ORGANIZATION', 'CONTACT-INFO') else 'single-line'
        return 'pysnmp;%s;%s' % (where, why)
    return '%s;%s' % (cl, t['sc']['filter'])


def replay(path):
    with open(path) as fh:
        rp = json.load(fh)['replay']
    r = replay_one((rp['sc'], 0, True, tlc.mkscratch('tx-')))
    print(repr(r['concrete']))
    print(json.dumps(r['obs'], indent=1))
