"""C07 C08 C09 C10(a) C19(a): MibCompiler.compile() against specs/MibCompile.tla.

Pipeline (DESIGN.md section 2):
  1. TLC model-checks MibCompile on exhaustive slices with the property's formulas as invariants
     (a violation here is a machinery error: the specification disagrees with its own property);
  2. the same runs export terminal states = scenarios (request, lazily chosen environment, predicted log/result);
  3. every scenario is replayed through the real MibCompiler with scripted doubles;
  4. the recorded traces are validated by TLC against MibCompileTrace (refinement + property monitor);
  5. verdict per trace: pass / DRIFT / KNOWN-FINDING / VIOLATION.
"""
import json
import os
import random

from harness import tlc, doubles

PROP_FORMULAS = {
    'C07': ['NoRaise', 'OneOfSix', 'Accounted', 'PutAtMostOnce', 'StatusMatchesEffect', 'TextIsGenerated',
            'FailedCarriesError', 'OptionsPassed'],
    'C08': ['NoRaise', 'Terminates', 'Accounted', 'FetchAtMostOnce', 'SourceOrder', 'CompiledFromAccepted'],
    'C09': ['NoRaise', 'Accounted', 'AllOrNothing', 'BadKeepStatus'],
    'C10': ['NoRaise', 'FreshMeansUntouched', 'SearcherOrder', 'SearcherSeesSourceTime', 'NoDepsOnlyRequested',
            'GeneratedWhenNeeded', 'OptionsPassed'],
    'C19': ['NoRaise', 'BorrowOnlyFailures', 'FlavourMatch', 'BorrowOrder', 'Verbatim', 'NeverReplaceCompiled',
            'RequestedStayEligible', 'BorrowedMeansLent', 'TextIsGenerated'],
}
ALL_FORMULAS = sorted(set(sum(PROP_FORMULAS.values(), [])))

ACTIONS = ['Pop', 'Src', 'Search', 'Sea', 'Gen', 'Borrow', 'Bor', 'BCheck', 'BSea', 'Decide', 'Write']
DEVS = ['Dev_StaleStatus', 'Dev_EmptyVanishes', 'Dev_MissingRequestedNotBorrowed', 'Dev_RefetchAlias']

# name: (NSrc, NSea, NBor, ReqSet, SrcAnswersFor, SeaAns, GenAns, BorAns, PutAns, bounded)
SLICES = {
    # discovery: every source outcome x import list x semantic error; downstream trivial
    'q1': (2, 0, 0, 'Req_q1', 'Src_q1', '{}', '{"ok"}', '{}', '{"ok"}'),
    # files named unlike their modules, two modules per file
    'q2': (2, 1, 0, 'Req_q2', 'Src_q2', '{"fresh", "absent"}', '{"ok", "err"}', '{}', '{"ok"}'),
    # downstream: searchers, generation, borrowing, decision, writing
    'q3': (1, 2, 0, 'Req_q3', 'Src_q3', '{"fresh", "absent", "error"}', '{"ok", "err"}', '{}', '{"ok", "err"}'),
    'q4': (1, 1, 2, 'Req_q3', 'Src_q3', '{"fresh", "absent"}', '{"ok", "err"}', '{"ok", "nf", "err"}', '{"ok"}'),
    'q5': (1, 1, 1, 'Req_q3', 'Src_q3', '{"fresh", "absent", "silent"}', '{"ok", "err"}', '{"ok", "nf"}', '{"ok", "err"}'),
    # alias files (file named unlike its module) with a borrower: eligibility by canonical name under noDeps
    'q7': (1, 1, 1, 'Req_q2', 'Src_q2', '{"absent"}', '{"ok", "err"}', '{"ok", "nf"}', '{"ok"}'),
    'q6': (2, 0, 0, 'Req_q6', 'Src_q6', '{}', '{"ok", "err"}', '{}', '{"ok"}'),
    # liveness: cycles, self imports, all phases; SPECIFICATION Spec (weak fairness), PROPERTY Termination
    'l1': (1, 1, 1, 'Req_l1', 'Src_l1', '{"fresh", "absent"}', '{"ok", "err"}', '{"ok", "nf"}', '{"ok"}'),
    't1': (2, 1, 1, 'Req_t1', 'Src_t1', '{"fresh", "absent"}', '{"ok", "err"}', '{"ok", "nf"}', '{"ok", "err"}'),
    't3': (1, 2, 2, 'Req_q3', 'Src_q3', '{"fresh", "absent", "error", "silent"}', '{"ok", "err"}', '{"ok", "nf", "err"}', '{"ok", "err"}'),
}
TIERS = {'quick': ['q1', 'q2', 'q3', 'q4', 'q5'], 'thorough': ['q1', 'q2', 'q3', 'q4', 'q5', 'q6', 'q7', 't1', 't3']}
# quick tier: the slices that exercise the property's own phases (thorough runs all of them for every property)
QUICK = {'C07': ['q2', 'q5'], 'C08': ['q1', 'q2', 'q6'], 'C09': ['q5', 'q6'],
         'C10': ['q3', 'q5'], 'C19': ['q4', 'q7']}


def cfg_text(sl, formulas, export=None, devs=()):
    nsrc, nsea, nbor, req, src, sea, gen, bor, put = SLICES[sl]
    lines = ['CONSTANTS', '  NSrc = %d' % nsrc, '  NSea = %d' % nsea, '  NBor = %d' % nbor,
             '  ReqSet <- %s' % req, '  SrcAnswersFor <- %s' % src, '  SeaAns = %s' % sea, '  GenAns = %s' % gen,
             '  BorAns = %s' % bor, '  PutAns = %s' % put, '  ConstImp <- NoConstImp']
    for d in DEVS:
        lines.append('  %s = %s' % (d, 'TRUE' if d in devs else 'FALSE'))
    lines += ['INIT Init', 'NEXT Next', 'INVARIANT TypeOK']
    lines += ['INVARIANT P_%s' % f for f in formulas]
    if export:
        lines.append('INVARIANT %s' % export)
    return '\n'.join(lines) + '\n'


def trace_cfg(nsrc, nsea, nbor, devs=()):
    lines = ['CONSTANTS', '  NSrc = %d' % nsrc, '  NSea = %d' % nsea, '  NBor = %d' % nbor, '  ReqSet = {}',
             '  SrcAnswersFor <- TraceSrcAnswers', '  SeaAns = {"absent"}', '  GenAns = {"ok"}', '  BorAns = {"nf"}',
             '  PutAns = {"ok"}', '  ConstImp <- TraceConstImp']
    for d in DEVS:
        lines.append('  %s = %s' % (d, 'TRUE' if d in devs else 'FALSE'))
    lines += ['INIT TInit', 'NEXT TNext', 'INVARIANT Report']
    return '\n'.join(lines) + '\n'


def model_check(sl, formulas, export='Export', timeout=6000, seed=0):
    res = tlc.run('MC_MibCompile', 'gen.cfg', files={'gen.cfg': cfg_text(sl, formulas, export)}, timeout=timeout, deadlock=True, coverage=True, seed=seed)
    return res


def validate(traces, nsrc, nsea, nbor, devs=(), workers=8):
    """Batch trace validation; returns {id: verdict}."""
    out = {}
    if not traces:
        return out, None
    d = tlc.mkscratch('tr-')
    path = os.path.join(d, 'traces.json')
    res = None
    for lo in range(0, len(traces), 5000):          # batches of 5000 traces per TLC run
        with open(path, 'w') as fh:
            json.dump(traces[lo:lo + 5000], fh)
        r = tlc.run('MibCompileTrace', 'tr.cfg', files={'tr.cfg': trace_cfg(nsrc, nsea, nbor, devs)},
                    env={'TRACE_FILE': path}, workers=workers, timeout=3600)
        for v in r.exports:
            cur = out.get(v['id'])
            # several terminal states for one trace only arise when the spec asks a question the code never asked
            if cur is None or (cur['refine'] == 'ok' and v['refine'] != 'ok'):
                out[v['id']] = v
        if res is None:
            res = r
        else:
            res.distinct += r.distinct
            res.generated += r.generated
            res.wall += r.wall
    return out, res


def scenario_key(sc):
    return json.dumps([sc['req'], sorted((e['k'], e['r'], e.get('mods', [])) for e in sc['env'])], sort_keys=True)


def brief(tr):
    return ' '.join('%s(%s,%s%s)=%s' % (e['ev'], e['idx'], e['name'], '' if e['file'] in ('-', e['name']) else '@' + e['file'], e['ans'])
                    for e in tr['log']) + ' -> ' + ','.join('%s:%s' % (p['name'], p['st']) for p in tr['proc']) + \
        ('' if tr['ended'] == 'return' else ' RAISED %s' % tr['exc'])


def to_trace(sc_id, tr):
    return {'id': sc_id, 'req': tr['req'], 'opts': tr['opts'], 'flavs': tr['flavs'] or [False], 'nbor': tr['nbor'],
            'env': doubles.observed_env(tr), 'log': tr['log'], 'proc': tr['proc'], 'ended': tr['ended']}


def identify_batch(traces, nsrc, nsea, nbor):
    """Which single named deviation of the specification explains each trace? (used in signatures)"""
    res = {}
    todo = list(traces)
    for d in DEVS:
        if not todo:
            break
        v, _ = validate(todo, nsrc, nsea, nbor, devs=(d,), workers=4)
        rest = []
        for t in todo:
            vv = v.get(t['id'])
            if vv and vv['refine'] == 'ok':
                res[t['id']] = d
            else:
                rest.append(t)
        todo = rest
    for t in todo:
        res[t['id']] = 'none'
    return res


def run(out, prop, tier, seed, max_replay=None, only_slices=None):
    formulas = PROP_FORMULAS[prop]
    rnd = random.Random(seed)
    slices = only_slices or (QUICK[prop] if tier == 'quick' else TIERS[tier])
    cap = max_replay or (2000 if tier == 'quick' else 10 ** 9)
    for sl in slices:
        nsrc, nsea, nbor = SLICES[sl][:3]
        import time as _t
        t0 = _t.time()
        # quick tier: every 7th terminal state is exported (the replay sample is drawn from them); thorough: all of them
        res = model_check(sl, formulas, export='ExportSome' if (tier == 'quick' and not only_slices) else 'Export', seed=seed)
        t1 = _t.time()
        out.add_tlc(res, 'MibCompile/' + sl)
        cov = out.extra.setdefault('action_coverage', {})
        for a, (d_, t_) in res.coverage.items():
            cov[a] = cov.get(a, 0) + t_
        scs = res.exports
        out.extra.setdefault('scenarios_exported', {})[sl] = len(scs)
        if len(scs) > cap:
            scs = rnd.sample(scs, cap)
        traces, raw = [], {}
        for i, sc in enumerate(scs):
            tr = doubles.run_scenario(sc, nsrc, nsea, nbor, salt=seed + i)
            sid = '%s-%d' % (sl, i)
            raw[sid] = (sc, tr)
            traces.append(to_trace(sid, tr))
            out.evaluations += 1
            if any(e['ans'] not in ('data', 'ok', 'absent') for e in tr['log']):
                out.distinct.add(scenario_key(sc))
        t2 = _t.time()
        verdicts, vres = validate(traces, nsrc, nsea, nbor)
        t3 = _t.time()
        out.extra.setdefault('timing_s', {})[sl] = {'model_check': round(t1 - t0, 1), 'replay': round(t2 - t1, 1), 'validate': round(t3 - t2, 1)}
        if vres:
            out.add_tlc(vres, 'MibCompileTrace/' + sl)
        badtraces = [t for t in traces if t['id'] in verdicts and any(f in formulas for f in verdicts[t['id']]['failed'])]
        devof = identify_batch(badtraces[:300], nsrc, nsea, nbor) if badtraces else {}
        for t in traces:
            v = verdicts.get(t['id'])
            sc, tr = raw[t['id']]
            if v is None:
                out.machinery_errors.append('no verdict for trace %s' % t['id'])
                continue
            out.traces += 1
            bad = [f for f in v['failed'] if f in formulas]
            if out.traces % 997 == 1:
                out.sample({'slice': sl, 'request': sc['req'], 'trace': brief(tr), 'refine': v['refine'],
                            'failed_formulas': v['failed']})
            if bad:
                dev = devof.get(t['id'], '?')
                for f in bad:
                    sig = 'formula=%s;dev=%s' % (f, dev)
                    out.violation(sig, '%s fails (model deviation that explains the trace: %s) on [%s]' % (f, dev, brief(tr)),
                                  {'kind': 'mibcompile', 'slice': sl, 'salt': seed + int(t['id'].split('-')[1]), 'nsrc': nsrc, 'nsea': nsea, 'nbor': nbor,
                                   'scenario': sc, 'observed': tr, 'verdict': v})
            elif v['refine'] != 'ok':
                out.add_drift('slice=%s at=%s expected=%s got=%s procOk=%s [%s]' % (
                    sl, v['at'], v['expected'], v['got'], v['procOk'], brief(tr)))
    # vacuity guard: every action of the specification must have been taken in the slices of this run
    need = [a for a in ACTIONS if not (a in ('Bor', 'BSea') and all(SLICES[x][2] == 0 for x in slices))
            and not (a == 'Sea' and all(SLICES[x][1] == 0 for x in slices))]
    never = [a for a in need if out.extra.get('action_coverage', {}).get(a, 0) == 0]
    if never and not only_slices:
        out.machinery_errors.append('actions of MibCompile never taken in this run (vacuous): %s' % never)
    if prop == 'C08' and not only_slices:
        # "always terminates": a temporal property, checked under the fair specification without any state constraint
        lcfg = cfg_text('l1', []).replace('INIT Init\nNEXT Next\n', 'SPECIFICATION Spec\n') + 'PROPERTY Termination\n'
        lres = tlc.run('MC_MibCompile', 'live.cfg', files={'live.cfg': lcfg}, timeout=3000)
        out.add_tlc(lres, 'MibCompile/l1-liveness(Termination under WF)')
    out.assumptions += ['TLC and the Json/IOUtils community modules are trusted',
                        'component answers are given by scripted doubles (harness/doubles.py); pass 1 is a double in this mode',
                        'borrowers are the real AnyFileBorrower around a reader double']
    return out


def replay(path):
    with open(path) as fh:
        rp = json.load(fh)['replay']
    tr = doubles.run_scenario(rp['scenario'], rp['nsrc'], rp['nsea'], rp['nbor'], salt=rp.get('salt', 0))
    t = to_trace('replay', tr)
    v, _ = validate([t], rp['nsrc'], rp['nsea'], rp['nbor'], workers=1)
    print(brief(tr))
    print(json.dumps(v.get('replay'), indent=1))
    return v.get('replay')
