"""C11: malformed input is rejected with a located package error (specs/Mutate.tla on top of Syntax.tla)."""
import json
import os
import random
import time

from harness import tlc, par
from checks import syntax

SPELL = dict(syntax.SPELL)
SPELL.update({'@TOOBIG': '18446744073709551616', '@NEGTOOBIG': '-18446744073709551616', '@BANG': '!', '@NONASCII': u'é'})
DIALECTS = ['smiV2', 'smiV1', 'smiV1Relaxed']
CFG = 'CONSTANTS\n  MaxDecls = %d\n  MaxMods = %d\n  ShapePool <- Reps\nINIT %s\nNEXT %s\n'


def spell(tok, variant):
    if tok in syntax.BODIES:
        return syntax.BODIES[tok][variant % len(syntax.BODIES[tok])]
    return SPELL.get(tok, tok)


def render(toks, fills, variant):
    pieces, pos, spans = [], 0, []
    for i, t in enumerate(toks):
        s = spell(t, variant)
        spans.append((pos, pos + len(s)))
        pieces.append(s)
        pos += len(s)
        f = syntax.FILL[fills[i]] if i < len(fills) else ''
        pieces.append(f)
        pos += len(f)
    return ''.join(pieces), spans


PUNCT = {'{', '}', '(', ')', ',', ';', '|', '..', '::='}


def can_abut(a, b):
    return (a in PUNCT or b in PUNCT) and a not in syntax.BODIES and b not in syntax.BODIES


def apply_mut(toks, fills, m):
    i = m['i'] - 1
    if m['op'] == 'delete':
        toks, fills = toks[:i] + toks[i + 1:], fills[:i] + fills[i + 1:]
    elif m['op'] == 'duplicate':
        toks, fills = toks[:i] + [toks[i]] + toks[i:], fills[:i] + ['SP'] + fills[i:]
    elif m['op'] == 'replace':
        toks, fills = toks[:i] + [m['t']] + toks[i + 1:], list(fills)
    elif m['op'] == 'insert':
        toks, fills = toks[:i] + [m['t']] + toks[i:], fills[:i] + ['SP'] + fills[i:]
    else:
        toks, fills = list(toks), list(fills)
    fills = ['SP' if (g + 1 < len(toks) and f == 'NONE' and not can_abut(toks[g], toks[g + 1])) else f for g, f in enumerate(fills)]
    return toks, fills


def outcome(dialect, text):
    from pysmi import error
    o = {'kind': '?', 'line': 0, 'tok': '-', 'nmods': 0, 'msg': ''}
    prs = syntax.parser(dialect)        # building the parser tables is not part of parsing this text
    # CPU time of this process, not wall-clock time: a loaded machine must not look like a parser that hangs
    t0 = time.process_time()
    try:
        r = prs.parse(text)
        o.update(kind='modules', nmods=len(r))
    except error.PySmiError as exc:
        o.update(kind=type(exc).__name__, msg=str(exc)[:160])
        ln = getattr(exc, 'lineno', None)
        o['line'] = ln if isinstance(ln, int) else -1
        msg = getattr(exc, 'msg', '')
        if 'near token type' in msg:
            v = msg.split(', value ', 1)[1] if ', value ' in msg else '?'
            o['tok'] = v
        elif 'end of' in msg.lower() or 'eof' in msg.lower():
            o['tok'] = '@EOF'
    except Exception as exc:
        o.update(kind='FOREIGN:' + type(exc).__name__, msg=str(exc)[:160], line=getattr(exc, 'lineno', -1) if isinstance(getattr(exc, 'lineno', -1), int) else -1)
    o['ms'] = int((time.process_time() - t0) * 1000)
    return o


def replay_mut(args):
    sc, base, salt = args
    toks, fills = apply_mut(base['toks'], base['fills'], sc['mut'])
    text, _ = render(toks, fills, salt)
    d = DIALECTS[salt % 3]
    return {'kind': 'mut', 'file': sc['file'], 'offset': sc['offset'], 'mut': sc['mut'], 'mtoks': toks, 'mfills': fills,
            'spelled': [spell(t, salt) for t in toks], 'obs': outcome(d, text), 'dialect': d, 'text': text, 'k': 0, 'partial': False, 'lines': 0}


def replay_trunc(args):
    base, cut, salt = args
    text, spans = render(base['toks'], base['fills'], salt)
    pre = text[:cut]
    k = sum(1 for a, b in spans if b <= cut)
    partial = any(a < cut < b for a, b in spans)
    d = DIALECTS[salt % 3]
    nl = pre.count('\r\n') + pre.replace('\r\n', '').count('\n') + pre.replace('\r\n', '').count('\r')
    return {'kind': 'trunc', 'file': base['file'], 'offset': base['offset'], 'mut': {'op': 'none', 'i': 0, 't': '-'}, 'mtoks': [], 'mfills': [], 'spelled': [],
            'obs': outcome(d, pre), 'dialect': d, 'text': pre, 'k': k, 'partial': bool(partial), 'lines': nl + 1}


def run(out, prop, tier, seed, **kw):
    rnd = random.Random(seed)
    scratch = tlc.mkscratch('mu-')
    res = tlc.run('MC_Mutate', 'g.cfg', files={'g.cfg': CFG % (1, 2, 'MInit', 'MNext') + 'INVARIANT ExportBase\nINVARIANT ExportMut\n'}, timeout=3000)
    out.add_tlc(res, 'Mutate/all-single-token-mutations')
    bases = {}
    muts = []
    for e in res.exports:
        key = json.dumps([e['file'], e['offset']], sort_keys=True)
        if e['kind'] == 'base':
            bases[key] = e
        else:
            muts.append((key, e))
    out.extra['base_files'] = len(bases)
    out.extra['mutations_exported'] = len(muts)
    rnd.shuffle(muts)
    nmut, nbase = (4000, 10) if tier == 'quick' else (120000, 60)
    jobs = [(e, bases[k], seed + i) for i, (k, e) in enumerate(muts[:nmut])]
    results = par.pmap(replay_mut, jobs, chunk=64)
    # every prefix of a sample of base texts
    bl = [bases[k] for k in sorted(bases)]
    rnd.shuffle(bl)
    tj = []
    for bi, b in enumerate(bl[:nbase]):
        text, _ = render(b['toks'], b['fills'], seed + bi)
        _, spans = render(b['toks'], b['fills'], seed + bi)
        intoken = set()
        for a, z in spans:
            intoken.update(range(a + 1, z + 1))
        for cut in range(0, len(text)):
            # a cut between the two hyphens that start a comment filler leaves a stray '-', which is a malformed text of its own
            if cut not in intoken and cut > 0 and text[cut - 1] == '-' and text[cut] == '-' and (cut < 2 or text[cut - 2] != '-'):
                continue
            tj.append((b, cut, seed + bi))
    results += par.pmap(replay_trunc, tj, chunk=128)
    out.extra['prefixes'] = len(tj)
    traces = []
    for i, r in enumerate(results):
        r['id'] = 'm%d' % i
        traces.append(r)
        out.evaluations += 1
        out.distinct.add(r['text'])
    verdicts = {}
    for chunk in range(0, len(traces), 6000):
        part = traces[chunk:chunk + 6000]
        path = os.path.join(scratch, 'traces%d.json' % chunk)
        with open(path, 'w') as fh:
            json.dump([{k: v for k, v in t.items() if k not in ('text', 'dialect')} for t in part], fh)
        vres = tlc.run('MutateTrace', 't.cfg', files={'t.cfg': CFG % (9, 9, 'TInit', 'TNext') + 'INVARIANT Report\n'}, env={'TRACE_FILE': path}, workers=8, timeout=3000)
        out.add_tlc(vres, 'MutateTrace/%d' % chunk)
        verdicts.update({v['id']: v for v in vres.exports})
    for t in traces:
        v = verdicts.get(t['id'])
        if v is None:
            out.machinery_errors.append('no verdict for %s' % t['id'])
            continue
        out.traces += 1
        if out.traces % 1999 == 1:
            out.sample({'kind': t['kind'], 'mutation': t['mut'], 'dialect': t['dialect'], 'text': t['text'][-300:], 'outcome': t['obs'], 'failed': v['failed']})
        for f in v['failed']:
            out.violation('formula=%s;%s' % (f, classify(t, f)), '%s fails: %s %s under %s -> %s  text=...%r' % (
                f, t['kind'], t['mut'] if t['kind'] == 'mut' else 'after %d tokens%s' % (t['k'], ' +partial' if t['partial'] else ''), t['dialect'], t['obs'], t['text'][-260:]),
                {'kind': 'mutate', 'what': t['kind'], 'file': t['file'], 'offset': t['offset'], 'mut': t['mut'], 'text': t['text'], 'dialect': t['dialect'], 'obs': t['obs']})
    out.assumptions += ['base texts are files of Syntax.tla (one representative declaration per kind, 1-2 modules); mutations are applied to (token, filler) pairs exactly as Mutate.tla defines (TextIsModel)',
                        'what a mutation inside a MACRO / EXPORTS / CHOICE block does is not judged (the block content must not matter)',
                        '"never fails to terminate" is a bound of 5 s of CPU time per parse of a generated input, not a proof']


def classify(t, f):
    o = t['obs']
    if f == 'TruncationIsError':
        return 'truncated-returns-%s' % ('modules' if o['kind'] == 'modules' else o['kind'])
    if f == 'OnlyPackageErrors':
        return o['kind']
    if f in ('Located', 'TruncLocated', 'IllegalRejected'):
        return '%s;%s' % (o['kind'], 'block-newlines' if any(b in json.dumps(t['file']) for b in ('macro', 'choice')) or any(m.get('exports') for m in t['file']) else 'line')
    return 'other'


def replay(path):
    with open(path) as fh:
        rp = json.load(fh)['replay']
    print(repr(rp['text']))
    print(outcome(rp['dialect'], rp['text']))
