"""C03: the JSON document holds exactly the declared symbols with matching data (specs/Decls.tla)."""
import json
import os
import random

from harness import tlc, mibs, render, par

NAMES = ['alpha', 'beta-two', 'gammaNode', 'delta-4x', 'if', 'ePsilon9', 'zeta-eta-theta', 'class']
TYPES = ['AlphaType', 'Beta-Kind', 'GammaTC', 'Delta4x']
# revision ids: (spelling in the MIB, canonical form per SMIv2: short form is 19YY)
REVS = {'R1': ('200001100000Z', '2000-01-10 00:00'), 'R2short': ('9505051200Z', '1995-05-05 12:00'),
        'R68short': ('6812312359Z', '1968-12-31 23:59')}
CANON = {v[1]: k for k, v in REVS.items()}
SLICES = {'pairs': (2, 'KAll', 'St3', 'Ac5', 'Revs'), 'triples': (3, 'KAll', 'St1', 'Ac2', 'Revs1')}
TIERS = {'quick': ['pairs', 'triples'], 'thorough': ['pairs', 'triples']}
CFG = 'CONSTANTS\n  MaxDecls = %d\n  Kinds <- %s\n  Statuses <- %s\n  Accesses <- %s\n  RevLists <- %s\nINIT %s\nNEXT %s\n'


def name_of(d, salt):
    if d['kind'] in ('type', 'tc'):
        return TYPES[(d['id'] + salt) % len(TYPES)]
    return NAMES[(d['id'] + salt) % len(NAMES)]


def build(sc, salt):
    decls = sc['decls']
    nm = {d['id']: name_of(d, salt) for d in decls}
    byid = {d['id']: d for d in decls}
    imports = {}

    def need(frm, sym):
        imports.setdefault(frm, [])
        if sym not in imports[frm]:
            imports[frm].append(sym)
    out, seqs = [], []
    need('SNMPv2-SMI', 'enterprises')
    scal = next((d['id'] for d in decls if d['kind'] in ('scalar', 'column')), None)
    notif = next((d['id'] for d in decls if d['kind'] == 'notification'), None)
    for d in decls:
        k, i = d['kind'], d['id']
        oid = {'parent': 'enterprises', 'arcs': [[None, 7], [None, i]]}
        r = {'name': nm[i], 'oid': oid, 'status': d['status'] if d['status'] != '-' else 'current'}
        if k == 'value':
            r['k'] = 'value'
        elif k == 'objectidentity':
            r['k'] = 'objectidentity'
            need('SNMPv2-SMI', 'OBJECT-IDENTITY')
        elif k in ('scalar', 'column'):
            r.update(k='objecttype', syntax={'base': 'Integer32'}, access=d['access'])
            if d['units']:
                r['units'] = 'widgets per fortnight'
            if k == 'column':
                r['oid'] = {'parent': nm[d['parent']], 'arcs': [[None, i]]}
            need('SNMPv2-SMI', 'OBJECT-TYPE')
            need('SNMPv2-SMI', 'Integer32')
        elif k == 'table':
            row = next(x for x in decls if x['parent'] == i)
            r.update(k='objecttype', syntax={'seqof': 'Seq%d' % row['id']}, access='not-accessible')
            need('SNMPv2-SMI', 'OBJECT-TYPE')
        elif k == 'row':
            cols = [x['id'] for x in decls if x['parent'] == i]
            r.update(k='objecttype', syntax={'base': 'Seq%d' % i}, access='not-accessible', index=[[False, nm[cols[0]]]])
            r['oid'] = {'parent': nm[d['parent']], 'arcs': [[None, 1]]}
            seqs.append({'k': 'sequence', 'name': 'Seq%d' % i, 'members': [[nm[c], 'Integer32'] for c in cols]})
            need('SNMPv2-SMI', 'OBJECT-TYPE')
            need('SNMPv2-SMI', 'Integer32')
        elif k == 'moduleidentity':
            r.update(k='moduleidentity', revisions=[[REVS[x][0], 'revision %s' % x] for x in d['revs']])
            need('SNMPv2-SMI', 'MODULE-IDENTITY')
        elif k == 'notification':
            r['k'] = 'notificationtype'
            need('SNMPv2-SMI', 'NOTIFICATION-TYPE')
        elif k == 'trap':
            r.update(k='traptype', enterprise='enterprises', number=i)
            need('RFC-1215', 'TRAP-TYPE')
        elif k == 'objectgroup':
            r.update(k='objectgroup', objects=[nm[scal]])
            need('SNMPv2-CONF', 'OBJECT-GROUP')
        elif k == 'notifgroup':
            r.update(k='notificationgroup', objects=[nm[notif]])
            need('SNMPv2-CONF', 'NOTIFICATION-GROUP')
        elif k == 'compliance':
            r['k'] = 'modulecompliance'
            need('SNMPv2-CONF', 'MODULE-COMPLIANCE')
        elif k == 'capabilities':
            r['k'] = 'agentcapabilities'
            need('SNMPv2-CONF', 'AGENT-CAPABILITIES')
        elif k == 'type':
            r.update(k='type', syntax={'base': 'OCTET STRING', 'sizes': [['0', '8']]})
        elif k == 'tc':
            r.update(k='tc', syntax={'base': 'Integer32', 'ranges': [['1', '9']]})
            need('SNMPv2-TC', 'TEXTUAL-CONVENTION')
            need('SNMPv2-SMI', 'Integer32')
        out.append(r)
    for j, sd in enumerate(seqs):
        out.insert((salt + j) % (len(out) + 1), sd)
    return {'name': 'DECLS-MIB', 'imports': sorted(imports.items()), 'decls': out}, nm


def replay_one(args):
    sc, salt = args
    mod, nm = build(sc, salt)
    text = render.render_module(mod)
    p = mibs.Pipeline({'DECLS-MIB': text}, backend='json')
    res = p.compile('DECLS-MIB', genTexts=bool(salt % 2))
    st = res.get('DECLS-MIB')
    obs = {'status': str(st), 'wellformed': False, 'dups': [], 'entries': [], 'error': str(getattr(st, 'error', ''))[:200]}
    if str(st) == 'compiled':
        doc, dups, err = render.observe_json(p.written.get('DECLS-MIB', ''))
        obs['wellformed'] = doc is not None
        obs['dups'] = [list(k) for k in dups]
        for key, e in (doc or {}).items():
            if not isinstance(e, dict):
                e = {}
            revs = [CANON.get(r.get('revision'), '?' + str(r.get('revision'))) for r in e.get('revisions', [])] if isinstance(e.get('revisions'), list) else []
            obs['entries'].append({'key': list(key), 'name': list(e.get('name', '')) if key not in ('imports', 'meta') else [],
                                   'cls': e.get('class', '-'), 'nodetype': e.get('nodetype', '-'), 'status': e.get('status', '-'),
                                   'access': e.get('maxaccess', '-'), 'units': 'units' in e, 'revs': revs})
    decls = [dict(d, name=list(nm[d['id']])) for d in sc['decls']]
    return {'decls': decls, 'obs': obs, 'text': text}


def run(out, prop, tier, seed, only_slices=None):
    rnd = random.Random(seed)
    scratch = tlc.mkscratch('dc-')
    for sl in (only_slices or TIERS[tier]):
        mx, kinds, sts, acs, revs = SLICES[sl]
        res = tlc.run('MC_Decls', 'g.cfg', files={'g.cfg': CFG % (mx, kinds, sts, acs, revs, 'Init', 'Next') + 'INVARIANT Export\n'}, timeout=3000)
        out.add_tlc(res, 'Decls/' + sl)
        scs = res.exports
        out.extra.setdefault('scenarios_exported', {})[sl] = len(scs)
        cap = 3000 if tier == 'quick' else 10 ** 9
        rnd.shuffle(scs)
        scs = scs[:cap]
        results = par.pmap(replay_one, [(sc, seed + i) for i, sc in enumerate(scs)])
        traces, texts = [], {}
        for i, r in enumerate(results):
            tid = '%s-%d' % (sl, i)
            texts[tid] = r.pop('text')
            r['id'] = tid
            traces.append(r)
            out.evaluations += 1
            if len(r['decls']) >= 2:
                out.distinct.add(json.dumps([[d[k] for k in ('kind', 'status', 'access', 'units', 'revs', 'parent')] for d in r['decls']]))
        path = os.path.join(scratch, 'traces.json')
        with open(path, 'w') as fh:
            json.dump(traces, fh)
        mc = open(os.path.join(tlc.SPECS, 'MC_Decls.tla')).read().split('EXTENDS Decls, Json')[1].split('Export ==')[0]
        vres = tlc.run('DeclsTrace', 't.cfg', files={'t.cfg': CFG % (mx, kinds, sts, acs, revs, 'TInit', 'TNext') + 'INVARIANT Report\n',
                                                 'DeclsTrace.tla': open(os.path.join(tlc.SPECS, 'DeclsTrace.tla')).read().replace('VARIABLE tid', mc + 'VARIABLE tid')},
                       env={'TRACE_FILE': path}, workers=8, timeout=3000)
        out.add_tlc(vres, 'DeclsTrace/' + sl)
        verdicts = {v['id']: v for v in vres.exports}
        for t in traces:
            v = verdicts.get(t['id'])
            if v is None:
                out.machinery_errors.append('no verdict for %s' % t['id'])
                continue
            out.traces += 1
            if out.traces % 701 == 1:
                out.sample({'module': texts[t['id']], 'failed': v['failed']})
            for f in v['failed']:
                kinds_ = sorted(set(d['kind'] for d in t['decls']))
                out.violation('formula=%s;%s' % (f, classify(t)), '%s fails (%s) for\n%s' % (f, t['obs']['error'], texts[t['id']][:1200]),
                              {'kind': 'decls', 'scenario': {'decls': [{k: d[k] for k in d if k != 'name'} for d in t['decls']]},
                               'text': texts[t['id']], 'obs': t['obs']})
    out.assumptions += ['module text rendered from the TLA+ declaration list; OIDs are { enterprises 7 n }',
                        'revision dates are symbolic ids mapped to (spelling, canonical form) by the harness table REVS',
                        'keys may carry the pysmi_ prefix for Python keywords (shared with the pysnmp backend)']


def classify(t):
    err = t['obs']['error']
    if 'Unknown parents' in err:
        return 'unknown-parents'
    if any('?' in r for e in t['obs']['entries'] for r in e['revs']):
        return 'revision-date'
    return 'other'


def replay(path):
    with open(path) as fh:
        rp = json.load(fh)['replay']
    print(rp['text'])
    print(json.dumps(replay_one((rp['scenario'], 0))['obs'], indent=1)[:2500])
