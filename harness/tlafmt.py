"""Compact printing of TLC counterexample traces (debug aid)."""
import re, sys
def compact(raw):
    out = []
    for blk in re.split(r'\n(?=State \d+:)', raw):
        m = re.match(r'State (\d+): <(\w+)', blk)
        if not m:
            continue
        log = re.search(r'/\\ log = (.*?)\n/\\ ', blk, re.S)
        evs = []
        if log:
            for rec in re.findall(r'\[ name \|-> (.*?)\]', log.group(1), re.S):
                rec = ' '.join(rec.split())
                f = dict(re.findall(r'(\w+) \|-> ((?:<<.*?>>|"[^"]*"|\w+))', 'name |-> ' + rec))
                evs.append('%s(%s,%s%s)=%s' % (f.get('ev', '?').strip('"'), f.get('idx'), f.get('name', '').strip('"'),
                                              '' if f.get('file') in ('"-"', None) else '@' + f['file'].strip('"'), f.get('ans', '').strip('"')))
        pc = re.search(r'/\\ pc = "(\w+)"', blk)
        proc = re.search(r'/\\ proc = (.*?)\n/\\ ', blk, re.S)
        out.append('S%s %s pc=%s log=[%s] proc=%s' % (m.group(1), m.group(2), pc and pc.group(1), ' '.join(evs),
                                                   ' '.join(proc.group(1).split()) if proc else ''))
    return '\n'.join(out)
if __name__ == '__main__':
    print(compact(sys.stdin.read()))
