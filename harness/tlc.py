"""Run TLC / SANY in a scratch directory and parse what they print.

Nothing is written into /verif/specs: the spec files are copied to a scratch
directory (under $VERIF_SCRATCH or a mkdtemp) that is removed afterwards.
"""
import json
import os
import re
import shutil
import subprocess
import tempfile
import time

VERIF = os.path.dirname(os.path.dirname(os.path.abspath(__file__)))
SPECS = os.path.join(VERIF, 'specs')
JAR = '/opt/veriftools/tla/tla2tools.jar'
DEPS = '/opt/veriftools/tla/CommunityModules-deps.jar'


class TlcError(Exception):
    """Machinery failure (spec does not parse, TLC crashed, timeout)."""


_scratch_root = None


def scratch_root():
    global _scratch_root
    if _scratch_root is None:
        base = os.environ.get('VERIF_SCRATCH')
        if base:
            os.makedirs(base, exist_ok=True)
            _scratch_root = tempfile.mkdtemp(prefix='vf-', dir=base)
        else:
            _scratch_root = tempfile.mkdtemp(prefix='verif-pysmi-')
    return _scratch_root


def cleanup():
    global _scratch_root
    if _scratch_root and os.path.isdir(_scratch_root):
        shutil.rmtree(_scratch_root, ignore_errors=True)
    _scratch_root = None


def mkscratch(prefix='w-'):
    return tempfile.mkdtemp(prefix=prefix, dir=scratch_root())


class TlcResult(object):
    def __init__(self):
        self.generated = 0
        self.distinct = 0
        self.depth = 0
        self.ok = False            # "No error has been found"
        self.violated = []         # names of violated invariants/properties
        self.exports = []          # decoded ToJson records printed with PrintT
        self.raw = ''
        self.wall = 0.0
        self.coverage = {}         # action name -> (distinct, total) when -coverage
        self.errors = []

    def __repr__(self):
        return '<TlcResult ok=%s gen=%d distinct=%d exports=%d violated=%s>' % (
            self.ok, self.generated, self.distinct, len(self.exports), self.violated)


_RE_STATES = re.compile(r'^(\d+) states generated, (\d+) distinct states found')
_RE_DEPTH = re.compile(r'^The depth of the complete state graph search is (\d+)')
_RE_INV = re.compile(r'^Error: Invariant (\S+) is violated')
_RE_PROP = re.compile(r'^Error: (?:Action|Temporal) propert(?:y|ies) (\S*)\s*(?:is|were) violated')
_RE_COV = re.compile(r'^<(\w+) line \d+, col \d+ to line \d+, col \d+ of module \w+>: (\d+):(\d+)')


def parse_output(text, res=None):
    res = res or TlcResult()
    res.raw = text
    for line in text.splitlines():
        line = line.rstrip()
        if line.startswith('"{') or line.startswith('"['):
            try:
                res.exports.append(json.loads(json.loads(line)))
            except ValueError:
                res.errors.append('unparsable export: %s' % line[:200])
            continue
        m = _RE_STATES.match(line)
        if m:
            res.generated = int(m.group(1))
            res.distinct = int(m.group(2))
            continue
        m = _RE_DEPTH.match(line)
        if m:
            res.depth = int(m.group(1))
            continue
        m = _RE_INV.match(line)
        if m:
            res.violated.append(m.group(1))
            continue
        m = _RE_PROP.match(line)
        if m:
            res.violated.append(m.group(1) or 'temporal')
            continue
        m = _RE_COV.match(line)
        if m:
            res.coverage[m.group(1)] = (int(m.group(2)), int(m.group(3)))
            continue
        if 'No error has been found' in line:
            res.ok = True
        elif line.startswith('Error:') or 'TLC threw an unexpected exception' in line or line.startswith('***Parse Error') \
                or 'Semantic errors' in line or 'Parsing or semantic analysis failed' in line:
            res.errors.append(line)
        elif 'is violated' in line and 'ostcondition' in line:
            res.violated.append('POSTCONDITION')
    return res


def run(module, cfg=None, workers=16, env=None, timeout=900, simulate=None, depth=None, seed=None,
        coverage=False, files=None, deadlock=False, dfs=False, extra=(), must_pass=True, keep_dir=None):
    """Run TLC on specs/<module>.tla with specs/<cfg> (default <module>.cfg).

    files: {relative name: text} additional files written into the run directory (generated
    cfg/wrapper modules, trace files).  Returns TlcResult.  Raises TlcError when TLC could not
    decide (parse error, crash, timeout) or - with must_pass - when it reports a violation.
    """
    d = keep_dir or mkscratch('tlc-')
    for f in os.listdir(SPECS):
        if f.endswith('.tla') or f.endswith('.cfg'):
            shutil.copy(os.path.join(SPECS, f), os.path.join(d, f))
    for name, text in (files or {}).items():
        with open(os.path.join(d, name), 'w') as fh:
            fh.write(text)
    cfg = cfg or (module + '.cfg')
    meta = os.path.join(d, 'meta')
    jopts = ['-XX:+UseParallelGC', '-Xmx8g', '-Djava.io.tmpdir=' + d]
    if dfs:
        jopts.append('-Dtlc2.tool.queue.IStateQueue=StateDeque')
    cmd = ['java'] + jopts + ['-cp', JAR + ':' + DEPS, 'tlc2.TLC', '-config', cfg, '-workers', str(workers),
                              '-metadir', meta, '-noGenerateSpecTE']
    if not deadlock:
        cmd.append('-deadlock')   # -deadlock DISABLES deadlock checking
    if simulate:
        cmd += ['-simulate', simulate]
    if depth:
        cmd += ['-depth', str(depth)]
    if seed is not None:
        cmd += ['-seed', str(seed)]
    if coverage:
        cmd += ['-coverage', '1']
    cmd += list(extra)
    cmd.append(module)
    e = dict(os.environ)
    e.pop('JAVA_TOOL_OPTIONS', None)
    if env:
        e.update(env)
    t0 = time.time()
    try:
        p = subprocess.run(cmd, cwd=d, env=e, stdout=subprocess.PIPE, stderr=subprocess.STDOUT,
                           timeout=timeout, universal_newlines=True, errors='replace')
    except subprocess.TimeoutExpired:
        subprocess.call(['pkill', '-f', 'tlc2[.]TLC.*' + re.escape(meta)])
        raise TlcError('TLC timeout after %ss on %s/%s' % (timeout, module, cfg))
    finally:
        shutil.rmtree(meta, ignore_errors=True)
    res = parse_output(p.stdout)
    res.wall = time.time() - t0
    res.dir = d
    if res.errors and not res.violated:
        raise TlcError('TLC failed on %s/%s:\n%s' % (module, cfg, '\n'.join(res.errors[:5]) + '\n' + p.stdout[-3000:]))
    if not res.ok and not res.violated and not simulate:
        raise TlcError('TLC gave no verdict on %s/%s:\n%s' % (module, cfg, p.stdout[-3000:]))
    if must_pass and res.violated:
        raise TlcError('specification %s/%s violates its own property %s:\n%s' % (
            module, cfg, res.violated, p.stdout[-4000:]))
    if not keep_dir:
        shutil.rmtree(d, ignore_errors=True)
    return res


def sany_all():
    """Parse every specs/*.tla with SANY; returns list of (module, ok, msg)."""
    out = []
    d = mkscratch('sany-')
    for f in os.listdir(SPECS):
        if f.endswith('.tla'):
            shutil.copy(os.path.join(SPECS, f), os.path.join(d, f))
    for f in sorted(os.listdir(d)):
        with open(os.path.join(d, f)) as fh:
            if re.search(r'^EXTENDS.*\bApalache\b', fh.read(), re.M):
                continue            # typed module for Apalache (its standard module is not on SANY's path); see tools/setup.py
        p = subprocess.run(['java', '-Djava.io.tmpdir=' + d, '-cp', JAR + ':' + DEPS, 'tla2sany.SANY', f], cwd=d,
                           stdout=subprocess.PIPE, stderr=subprocess.STDOUT, universal_newlines=True)
        ok = p.returncode == 0 and 'rror' not in p.stdout.replace('Semantic errors:', 'Semantic errs:') or \
            ('Semantic processing of module' in p.stdout and '*** Errors' not in p.stdout and 'Abort' not in p.stdout
             and 'Parse Error' not in p.stdout and 'Could not' not in p.stdout)
        out.append((f, ok, '' if ok else p.stdout[-1500:]))
    shutil.rmtree(d, ignore_errors=True)
    return out
