"""MibCompiler.compile() with REAL components on a materialised world, observed through recording proxies.

The proxies forward every call to the real object (FileReader, SmiV1CompatParser, SymtableCodeGen, JsonCodeGen,
AnyFileSearcher / StubSearcher, FileReader behind AnyFileBorrower, FileWriter) and append one event per call in the
vocabulary of MibCompileProps.tla, classifying the real outcome (return value / exception class) into the answer
alphabet of MibCompile.tla.  Nothing is scripted: what the components answer is decided by the files on disk.
"""
import hashlib
import os

from pysmi import error
from harness.doubles import ev, Runaway, CappedLog

NOTEXT = ['-', 0, '-']


class Rec(object):
    def __init__(self):
        self.log = CappedLog()
        self.last_get = (0, '-')       # (source index, requested name) of the text being parsed / analysed
        self.psrc = {}                 # module -> source index it was parsed from
        self.texts = {}                # sha of a text -> identity  ['G', 0, m] / ['B', k, m]

    def remember(self, data, ident):
        self.texts[hashlib.sha1(data.encode('utf-8', 'replace') if isinstance(data, str) else bytes(data)).hexdigest()] = ident

    def identify(self, data):
        h = hashlib.sha1(data.encode('utf-8', 'replace') if isinstance(data, str) else bytes(data)).hexdigest()
        return self.texts.get(h, ['?', 0, 'str'])


def _tag(exc, vid):
    if not hasattr(exc, 'vid'):
        exc.vid = list(vid)
    return exc


class SourceProxy(object):
    def __init__(self, rec, idx, real):
        self.rec, self.idx, self.real = rec, idx, real

    def __str__(self):
        return 'SourceProxy{%d}(%s)' % (self.idx, self.real)

    def setOptions(self, **kw):
        self.real.setOptions(**kw)
        return self

    def getData(self, mibname, **options):
        fid = ['F', self.idx, mibname]
        try:
            info, data = self.real.getData(mibname, **options)
        except error.PySmiReaderFileNotFoundError:
            self.rec.log.append(ev('get', self.idx, mibname, ans='nf', text=fid))
            raise
        except error.PySmiError as exc:
            self.rec.log.append(ev('get', self.idx, mibname, ans='err', text=fid))
            raise _tag(exc, ('src', self.idx, mibname))
        self.rec.log.append(ev('get', self.idx, mibname, ans='data', text=fid))
        self.rec.last_get = (self.idx, mibname)
        return info, data


class ParserProxy(object):
    def __init__(self, rec, real):
        self.rec, self.real = rec, real

    def reset(self):
        return self.real.reset()

    def parse(self, data, **kwargs):
        idx, name = self.rec.last_get
        fid = ['F', idx, name]
        try:
            trees = self.real.parse(data, **kwargs)
        except error.PySmiError as exc:
            # PySmiParserError is a subclass of PySmiLexerError: a lexer error is one that is not a parser error
            kind = 'lexerr' if isinstance(exc, error.PySmiLexerError) and not isinstance(exc, error.PySmiParserError) else 'parseerr'
            self.rec.log.append(ev('parse', idx, name, file=name, ans=kind, text=fid))
            raise _tag(exc, ('src', idx, name))
        self.rec.log.append(ev('parse', idx, name, file=name, ans='ok', text=fid, mods=[t[0] for t in trees]))
        return trees


class SymbolGenProxy(object):
    def __init__(self, rec, real):
        self.rec, self.real = rec, real

    def genCode(self, tree, symbolTable, **kwargs):
        idx, name = self.rec.last_get
        try:
            info, table = self.real.genCode(tree, symbolTable, **kwargs)
        except error.PySmiError as exc:
            self.rec.log.append(ev('sym', idx, tree[0], file=name, ans='symerr'))
            raise _tag(exc, ('src', idx, name))
        self.rec.log.append(ev('sym', idx, info.name, file=name, ans='ok', imp=list(info.imported)))
        self.rec.psrc[info.name] = idx
        return info, table


class CodegenProxy(object):
    def __init__(self, rec, real):
        self.rec, self.real = rec, real

    def genCode(self, tree, symbolTable, **kwargs):
        name = tree[0]
        tid = ['G', 0, name]
        try:
            info, data = self.real.genCode(tree, symbolTable, **kwargs)
        except error.PySmiError as exc:
            self.rec.log.append(ev('gen', self.rec.psrc.get(name, 0), name, ans='err', text=tid, flag=kwargs.get('genTexts')))
            raise _tag(exc, ('gen', 0, name))
        self.rec.log.append(ev('gen', self.rec.psrc.get(name, 0), name, ans='ok', text=tid, flag=kwargs.get('genTexts')))
        self.rec.remember(data, tid)
        return info, data

    def genIndex(self, *a, **kw):
        return self.real.genIndex(*a, **kw)


class SearcherProxy(object):
    def __init__(self, rec, idx, real):
        self.rec, self.idx, self.real = rec, idx, real

    def __str__(self):
        return 'SearcherProxy{%d}(%s)' % (self.idx, self.real)

    def setOptions(self, **kw):
        self.real.setOptions(**kw)
        return self

    def fileExists(self, mibname, mtime, rebuild=False):
        def log(ans):
            self.rec.log.append(ev('sea', self.idx, mibname, ans=ans, flag=rebuild, mtime=int(mtime)))
        try:
            r = self.real.fileExists(mibname, mtime, rebuild=rebuild)
        except error.PySmiFileNotModifiedError:
            log('fresh')
            raise
        except error.PySmiFileNotFoundError:
            log('absent')
            raise
        except error.PySmiError as exc:
            log('error')
            raise _tag(exc, ('sea', self.idx, mibname))
        log('silent')
        return r


class BorrowReaderProxy(object):
    def __init__(self, rec, idx, real):
        self.rec, self.idx, self.real = rec, idx, real

    def __str__(self):
        return 'BorrowReaderProxy{%d}(%s)' % (self.idx, self.real)

    def setOptions(self, **kw):
        self.real.setOptions(**kw)
        return self

    def getData(self, mibname, **options):
        tid = ['B', self.idx, mibname]
        try:
            info, data = self.real.getData(mibname, **options)
        except error.PySmiReaderFileNotFoundError:
            self.rec.log.append(ev('bor', self.idx, mibname, ans='nf', text=tid, flag=options.get('genTexts')))
            raise
        except error.PySmiError as exc:
            self.rec.log.append(ev('bor', self.idx, mibname, ans='err', text=tid, flag=options.get('genTexts')))
            raise _tag(exc, ('bor', self.idx, mibname))
        self.rec.log.append(ev('bor', self.idx, mibname, ans='ok', text=tid, flag=options.get('genTexts')))
        self.rec.remember(data, tid)
        return info, data


class WriterProxy(object):
    def __init__(self, rec, real):
        self.rec, self.real = rec, real

    def __str__(self):
        return 'WriterProxy(%s)' % self.real

    def setOptions(self, **kw):
        self.real.setOptions(**kw)
        return self

    def getData(self, filename):
        return self.real.getData(filename)

    def putData(self, mibname, data, comments=(), dryRun=False):
        tid = self.rec.identify(data)
        try:
            self.real.putData(mibname, data, comments=comments, dryRun=dryRun)
        except error.PySmiError as exc:
            self.rec.log.append(ev('put', 0, mibname, ans='err', text=tid, flag=dryRun))
            raise _tag(exc, ('put', 0, mibname))
        self.rec.log.append(ev('put', 0, mibname, ans='ok', text=tid, flag=dryRun))


BASE_STUBS = ('SNMPv2-CONF', 'SNMPv2-SMI', 'SNMPv2-TC')


def run_world(dirs, req, opts, flavour=False, fmt='json', calls=1, between=None):
    """dirs = (src, src2, bor, dst) as written by checks.clitools.build_world.  Returns a trace dict like
    harness.doubles.run_scenario: the real components answer, the proxies record.
    calls=2: compile() is called twice on the SAME MibCompiler (same reader / searcher / generator / writer objects);
    `between()` runs in between (e.g. to age what the first call stored); a list of two traces is returned."""
    from pysmi.compiler import MibCompiler
    from pysmi.reader import FileReader
    from pysmi.searcher import AnyFileSearcher, StubSearcher
    from pysmi.borrower import AnyFileBorrower
    from pysmi.writer import FileWriter
    from pysmi.parser import SmiV1CompatParser
    from pysmi.codegen import JsonCodeGen
    src, src2, bor, dst = dirs
    rec = Rec()
    c = MibCompiler(ParserProxy(rec, SmiV1CompatParser(tempdir='')), CodegenProxy(rec, JsonCodeGen()),
                    WriterProxy(rec, FileWriter(dst).setOptions(suffix='.json')))
    c._symbolgen = SymbolGenProxy(rec, c._symbolgen)
    c.addSources(SourceProxy(rec, 1, FileReader(src)), SourceProxy(rec, 2, FileReader(src2)))
    c.addSearchers(SearcherProxy(rec, 1, AnyFileSearcher(dst).setOptions(exts=['.json'])),
                   SearcherProxy(rec, 2, StubSearcher(*BASE_STUBS)))
    c.addBorrowers(AnyFileBorrower(BorrowReaderProxy(rec, 1, FileReader(bor)), genTexts=flavour).setOptions(exts=['.json']))
    traces = []
    for callno in range(calls):
        if callno and between:
            between(traces[-1])
        rec.log = CappedLog()
        traces.append(_one_call(c, rec, req, opts, flavour, dst))
    return traces[0] if calls == 1 else traces


def _one_call(c, rec, req, opts, flavour, dst):
    ended, exc_cls, proc = 'return', '', []
    try:
        res = c.compile(*req, **opts)
        for name, st in res.items():
            err = getattr(st, 'error', None)
            if err is None:
                vid = ['none', 0, '-']
            else:
                vid = getattr(err, 'vid', None)
                if vid is None and isinstance(getattr(err, 'source', None), SourceProxy):
                    vid = ['src', err.source.idx, getattr(err, 'mibname', '?')]
                vid = vid or ['other', 0, type(err).__name__]
            proc.append({'name': name, 'st': str(st), 'err': list(vid)})
    except Runaway:
        ended, exc_cls = 'runaway', 'cut off after %d component calls' % len(rec.log)
        rec.log = list(rec.log[:60])
    except Exception as exc:
        ended, exc_cls = 'raise', '%s: %s' % (type(exc).__name__, str(exc)[:120])
    return {'req': list(req), 'opts': opts, 'flavs': [flavour], 'nsrc': 2, 'nsea': 2, 'nbor': 1,
            'log': list(rec.log), 'proc': proc, 'ended': ended, 'exc': exc_cls, 'unscripted': 0,
            'dst_files': sorted(os.listdir(dst)) if os.path.isdir(dst) else []}
