import sys; sys.path.insert(0,'/verif')
from harness import tlc
mod,cfg=sys.argv[1],sys.argv[2]
kw={}
for a in sys.argv[3:]:
    k,v=a.split('='); kw[k]=int(v) if v.isdigit() else v
try:
    r=tlc.run(mod,cfg,must_pass=False,timeout=1200,**kw)
    print(r, round(r.wall,1)); 
    lines=[l for l in r.raw.splitlines() if not l.startswith('"{')]
    print('\n'.join(lines[-60:]))
except tlc.TlcError as e: print(str(e)[:8000])
finally: tlc.cleanup()
