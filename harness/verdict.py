"""Outcome bookkeeping shared by all checks: violations, known findings, drift, evidence."""
import json
import os
import sys
import time

VERIF = os.path.dirname(os.path.dirname(os.path.abspath(__file__)))
KNOWN = os.path.join(VERIF, 'known_findings.json')
# trial runs against seeded changes (tools/trymutant.sh) keep their evidence and replays out of /verif
OUT = os.environ.get('VERIF_OUT', VERIF)


def load_known():
    if not os.path.exists(KNOWN):
        return []
    with open(KNOWN) as fh:
        return json.load(fh).get('findings', [])


class Outcome(object):
    """Collects what one run of one property's check saw."""

    def __init__(self, prop, tier, seed):
        self.prop, self.tier, self.seed = prop, tier, seed
        self.t0 = time.time()
        self.states = 0
        self.transitions = 0
        self.traces = 0            # real-code traces given a verdict by TLC
        self.evaluations = 0       # scenarios replayed in the real code
        self.distinct = set()      # distinct non-trivial scenario keys
        self.samples = []
        self.violations = []       # dicts: sig, what, replay
        self.known_hits = {}       # finding id -> count
        self.drift = []
        self.notes = []
        self.extra = {}
        self.assumptions = []
        self.machinery_errors = []
        self._known = [k for k in load_known() if k.get('property') == prop and k.get('status', 'open') == 'open']
        self._replay_n = 0
        d = os.path.join(OUT, 'replays', prop)
        if os.path.isdir(d):
            for f in os.listdir(d):
                if f.startswith(tier + '-'):
                    os.unlink(os.path.join(d, f))

    # --- model checking stats
    def add_tlc(self, res, label=None):
        self.states += res.distinct
        self.transitions += res.generated
        if label:
            self.extra.setdefault('tlc_runs', []).append(
                {'config': label, 'distinct_states': res.distinct, 'states_generated': res.generated,
                 'wall_s': round(res.wall, 1)})

    def sample(self, s, limit=4):
        if len(self.samples) < limit:
            self.samples.append(s)

    # --- verdicts
    def match_known(self, sig):
        for k in self._known:
            pat = k.get('signature')
            if pat and (pat == sig or (pat.endswith('*') and sig.startswith(pat[:-1]))):
                return k
        return None

    def violation(self, sig, what, replay_obj):
        """sig: stable signature string of the witness; returns True if it is a new (unlisted) violation."""
        k = self.match_known(sig)
        if k:
            self.known_hits[k['id']] = self.known_hits.get(k['id'], 0) + 1
            return False
        path = None
        if len(self.violations) < 25:
            d = os.path.join(OUT, 'replays', self.prop)
            os.makedirs(d, exist_ok=True)
            self._replay_n += 1
            path = os.path.join(d, '%s-%d.json' % (self.tier, self._replay_n))
            with open(path, 'w') as fh:
                json.dump({'property': self.prop, 'signature': sig, 'what': what, 'replay': replay_obj}, fh, indent=1,
                          default=str)
        self.violations.append({'sig': sig, 'what': what, 'replay': path})
        return True

    def add_drift(self, what):
        self.drift.append(what)

    # --- finish
    def finish(self, level='model_checking', rule='', exhaustive=False, extra_cov=None):
        wall = time.time() - self.t0
        cov = {
            'states': self.states, 'transitions': self.transitions,
            'traces_validated_against_impl': self.traces,
            'samples': self.samples or [{'note': 'no sample recorded'}],
            'evaluations': self.evaluations, 'distinct_nontrivial': len(self.distinct),
            'rule': rule, 'exhaustive': bool(exhaustive),
            'drift': len(self.drift), 'drift_examples': self.drift[:5],
            'known_findings_seen': self.known_hits,
        }
        cov.update(self.extra)
        if extra_cov:
            cov.update(extra_cov)
        evid = {'property_id': self.prop, 'tier': self.tier, 'seed': self.seed, 'level': level, 'coverage': cov,
                'assumptions': self.assumptions, 'wall_s': round(wall, 2), 'violations': len(self.violations)}
        os.makedirs(os.path.join(OUT, 'evidence'), exist_ok=True)
        with open(os.path.join(OUT, 'evidence', self.prop + '.json'), 'w') as fh:
            json.dump(evid, fh, indent=1, default=str)
        if os.environ.get('VERIF_SIGCOUNTS'):
            import collections
            for sig, n in collections.Counter(v['sig'] for v in self.violations).most_common(40):
                print('SIG %6d %s' % (n, sig))
        for d in self.drift[:10]:
            print('DRIFT property=%s %s' % (self.prop, d))
        if len(self.drift) > 10:
            print('DRIFT property=%s ... %d more' % (self.prop, len(self.drift) - 10))
        for k in self._known:
            if k['id'] in self.known_hits:
                print('KNOWN-FINDING: property=%s %s (%s; seen %d times)' % (
                    self.prop, k['what'], k['id'], self.known_hits[k['id']]))
        seen = set()
        for v in self.violations:
            if v['replay'] and v['sig'] not in seen:
                seen.add(v['sig'])
                print('VIOLATION property=%s replay=%s  # %s' % (self.prop, v['replay'], v['what']))
        if self.violations and not seen:
            print('VIOLATION property=%s replay=%s' % (self.prop, self.violations[0]['replay']))
        print('%s %s: states=%d transitions=%d replayed=%d traces_validated=%d drift=%d known=%d violations=%d wall=%.1fs' % (
            self.prop, self.tier, self.states, self.transitions, self.evaluations, self.traces, len(self.drift),
            sum(self.known_hits.values()), len(self.violations), wall))
        if self.machinery_errors:
            for m in self.machinery_errors:
                print('MACHINERY-ERROR property=%s %s' % (self.prop, m), file=sys.stderr)
            return 2
        return 1 if self.violations else 0
