"""Scripted doubles for every component MibCompiler.compile() talks to.

The script is the lazily chosen environment `env` of specs/MibCompile.tla:
    (kind, idx, name) -> {'r': answer, 'mods': [...]}
Every call is appended to a shared log using the event vocabulary of
MibCompileProps.tla (Ev record).  Borrowers are the REAL AnyFileBorrower wrapped
around a reader double, so the flavour test of pysmi/borrower/base.py is the code's own.
"""
from pysmi import error
from pysmi.mibinfo import MibInfo
from pysmi.compiler import MibCompiler
from pysmi.borrower import AnyFileBorrower

NOTEXT = ['-', 0, '-']


def ev(kind, idx, name, file='-', ans='', text=None, flag=False, mtime=0, imp=(), mods=()):
    return {'ev': kind, 'idx': idx, 'name': name, 'file': file, 'ans': ans, 'text': list(text or NOTEXT),
            'flag': bool(flag), 'mtime': int(mtime), 'imp': list(imp), 'mods': list(mods)}


class Runaway(BaseException):
    """More component calls than any terminating run of the explored scenarios can make: the run is cut off."""


class CappedLog(list):
    CAP = 400

    def append(self, x):
        if len(self) >= self.CAP:
            raise Runaway()
        list.append(self, x)


class Text(object):
    """Opaque text identity minted by a double (code generator / borrower / source)."""

    def __init__(self, kind, idx, name):
        self.id = [kind, idx, name]

    def __repr__(self):
        return 'Text%r' % (self.id,)


class Tree(object):
    """What the parser double returns for one module."""

    def __init__(self, src, file, mod):
        self.src, self.file, self.mod = src, file, mod


class World(object):
    def __init__(self, script, nsrc, nsea, nbor, flavs):
        self.script = script
        self.nsrc, self.nsea, self.nbor, self.flavs = nsrc, nsea, nbor, list(flavs)
        self.log = CappedLog()
        self.unscripted = 0
        self.nfail = 0
        self.salt = 0

    def answer(self, key, default):
        a = self.script.get(key)
        if a is None:
            self.unscripted += 1
            return {'r': default, 'mods': []}
        return a

    def fail(self, cls, vid, msg):
        """A failure of a component: any class of the package's own error hierarchy that has no
        control-flow meaning for the caller (the model abstracts the class away: answer "err")."""
        self.nfail += 1
        pick = (self.salt + self.nfail * 7 + sum(map(ord, str(vid)))) % 3
        if pick == 1:
            cls = error.PySmiError
        elif pick == 2 and cls in (error.PySmiReaderError, error.PySmiSearcherError, error.PySmiWriterError):
            cls = error.PySmiCodegenError      # a foreign but package-typed error bubbling up from below
        exc = cls(msg)
        exc.vid = list(vid)
        return exc


class SourceDouble(object):
    def __init__(self, world, idx):
        self.w, self.idx = world, idx

    def __str__(self):
        return 'SourceDouble{%d}' % self.idx

    def setOptions(self, **kw):
        return self

    def getData(self, mibname, **options):
        w = self.w
        a = w.answer(('src', self.idx, mibname), 'nf')
        fid = ['F', self.idx, mibname]
        if a['r'] == 'nf':
            w.log.append(ev('get', self.idx, mibname, ans='nf', text=fid))
            raise error.PySmiReaderFileNotFoundError('no %s here' % mibname, reader=self)
        if a['r'] == 'err':
            w.log.append(ev('get', self.idx, mibname, ans='err', text=fid))
            raise w.fail(error.PySmiReaderError, ('src', self.idx, mibname), 'reader failure')
        w.log.append(ev('get', self.idx, mibname, ans='data', text=fid))
        data = Text('F', self.idx, mibname)
        data.answer = a
        return MibInfo(path='dbl://%d/%s' % (self.idx, mibname), file=mibname + '.mib', name=mibname,
                       mtime=100 + self.idx), data


class ParserDouble(object):
    def __init__(self, world):
        self.w = world

    def reset(self):
        pass

    def parse(self, data, **kwargs):
        w = self.w
        a = data.answer
        kind, idx, name = data.id
        names = [m['name'] for m in a.get('mods', [])]
        if a['r'] in ('parseerr', 'lexerr'):
            w.log.append(ev('parse', idx, name, file=name, ans=a['r'], text=data.id))
            cls = error.PySmiParserError if a['r'] == 'parseerr' else error.PySmiLexerError
            raise w.fail(cls, ('src', idx, name), 'bad text')
        w.log.append(ev('parse', idx, name, file=name, ans='ok', text=data.id, mods=names))
        return [Tree(idx, name, m) for m in a.get('mods', [])]


class SymbolGenDouble(object):
    """Stands in for SymtableCodeGen (pass 1): imports and semantic errors are scripted."""

    def __init__(self, world, const_imp=()):
        self.w, self.const_imp = world, tuple(const_imp)

    def genCode(self, tree, symbolTable, **kwargs):
        w = self.w
        m = tree.mod
        if m.get('sem', 'ok') != 'ok':
            w.log.append(ev('sym', tree.src, m['name'], file=tree.file, ans='symerr'))
            raise w.fail(error.PySmiSemanticError, ('src', tree.src, tree.file), 'semantic failure')
        imp = tuple(m.get('imp', ())) + self.const_imp
        w.log.append(ev('sym', tree.src, m['name'], file=tree.file, ans='ok', imp=imp))
        return MibInfo(oid=None, name=m['name'], revision=None, imported=imp), {}


class CodegenDouble(object):
    def __init__(self, world):
        self.w = world

    def genCode(self, tree, symbolTable, **kwargs):
        w = self.w
        name = tree.mod['name']
        a = w.answer(('gen', 0, name), 'ok')
        tid = ['G', 0, name]
        w.log.append(ev('gen', tree.src, name, ans=a['r'], text=tid, flag=kwargs.get('genTexts')))
        if a['r'] != 'ok':
            raise w.fail(error.PySmiCodegenError, ('gen', 0, name), 'codegen failure')
        return MibInfo(oid=None, name=name, revision=None, oids=[], identity=None, enterprise=None,
                       compliance=[], imported=()), Text('G', 0, name)

    def genIndex(self, *a, **kw):
        return ''


class SearcherDouble(object):
    def __init__(self, world, idx):
        self.w, self.idx = world, idx

    def __str__(self):
        return 'SearcherDouble{%d}' % self.idx

    def setOptions(self, **kw):
        return self

    def fileExists(self, mibname, mtime, rebuild=False):
        w = self.w
        phase = 'bsea' if any(e['ev'] == 'bor' and e['name'] == mibname and e['ans'] == 'ok' for e in w.log) else 'sea'
        a = w.answer((phase, self.idx, mibname), 'absent')
        w.log.append(ev('sea', self.idx, mibname, ans=a['r'], flag=rebuild, mtime=mtime))
        if a['r'] == 'fresh':
            raise error.PySmiFileNotModifiedError('fresh', searcher=self)
        if a['r'] == 'absent':
            raise error.PySmiFileNotFoundError('absent', searcher=self)
        if a['r'] == 'error':
            raise w.fail(error.PySmiSearcherError, (phase, self.idx, mibname), 'searcher failure')
        return None  # 'silent': what file searchers do under rebuild


class BorrowReaderDouble(object):
    def __init__(self, world, idx):
        self.w, self.idx = world, idx

    def __str__(self):
        return 'BorrowReaderDouble{%d}' % self.idx

    def setOptions(self, **kw):
        return self

    def getData(self, mibname, **options):
        w = self.w
        a = w.answer(('bor', self.idx, mibname), 'nf')
        tid = ['B', self.idx, mibname]
        w.log.append(ev('bor', self.idx, mibname, ans=a['r'], text=tid, flag=options.get('genTexts')))
        if a['r'] == 'ok':
            return MibInfo(path='bor://%d/%s' % (self.idx, mibname), file=mibname + '.py', name=mibname,
                           mtime=200 + self.idx), Text('B', self.idx, mibname)
        if a['r'] == 'nf':
            raise error.PySmiReaderFileNotFoundError('no %s to borrow' % mibname, reader=self)
        raise w.fail(error.PySmiReaderError, ('bor', self.idx, mibname), 'borrower failure')


class WriterDouble(object):
    def __init__(self, world):
        self.w = world

    def __str__(self):
        return 'WriterDouble'

    def setOptions(self, **kw):
        return self

    def getData(self, filename):
        return ''

    def putData(self, mibname, data, comments=(), dryRun=False):
        w = self.w
        a = w.answer(('put', 0, mibname), 'ok')
        tid = getattr(data, 'id', ['?', 0, str(type(data).__name__)])
        w.log.append(ev('put', 0, mibname, ans=a['r'], text=tid, flag=dryRun))
        if a['r'] != 'ok':
            raise w.fail(error.PySmiWriterError, ('put', 0, mibname), 'writer failure')


DEFAULT_OPTS = {'noDeps': False, 'rebuild': False, 'ignoreErrors': False, 'genTexts': False,
                'writeMibs': True, 'dryRun': False}


def run_scenario(sc, nsrc, nsea, nbor, const_imp=(), salt=0):
    """sc: {'req': [...], 'env': [{'k': [kind, idx, name], 'r':..., 'mods': [...]}]}.  Returns a trace dict."""
    script = {}
    opts = dict(DEFAULT_OPTS)
    flavs = [False] * nbor
    for e in sc['env']:
        kind, idx, name = e['k']
        if kind == 'opt':
            opts[name] = (e['r'] == 'T')
        elif kind == 'bflav':
            if 1 <= idx <= nbor:
                flavs[idx - 1] = (e['r'] == 'T')
        else:
            script[(kind, idx, name)] = {'r': e['r'], 'mods': e.get('mods', [])}
    w = World(script, nsrc, nsea, nbor, flavs)
    w.salt = salt
    c = MibCompiler(ParserDouble(w), CodegenDouble(w), WriterDouble(w))
    c._symbolgen = SymbolGenDouble(w, const_imp)
    c.addSources(*[SourceDouble(w, i + 1) for i in range(nsrc)])
    c.addSearchers(*[SearcherDouble(w, i + 1) for i in range(nsea)])
    c.addBorrowers(*[AnyFileBorrower(BorrowReaderDouble(w, i + 1), genTexts=flavs[i]) for i in range(nbor)])
    ended, exc_cls, proc = 'return', '', []
    try:
        res = c.compile(*sc['req'], **opts)
        for name, st in res.items():
            err = getattr(st, 'error', None)
            if err is None:
                vid = ['none', 0, '-']
            else:
                vid = getattr(err, 'vid', None)
                if vid is None and isinstance(getattr(err, 'source', None), SourceDouble):
                    # an error compile() raised itself about the copy a source delivered (e.g. no module in the file)
                    vid = ['src', err.source.idx, getattr(err, 'mibname', '?')]
                vid = vid or ['other', 0, type(err).__name__]
            proc.append({'name': name, 'st': str(st), 'err': list(vid)})
    except Runaway:
        ended, exc_cls = 'runaway', 'cut off after %d component calls' % len(w.log)
        w.log = list(w.log[:60])
    except Exception as exc:  # the property says compile() must not raise for package errors
        ended, exc_cls = 'raise', type(exc).__name__
    return {'req': list(sc['req']), 'opts': opts, 'flavs': flavs, 'nsrc': nsrc, 'nsea': nsea, 'nbor': nbor,
            'log': list(w.log), 'proc': proc, 'ended': ended, 'exc': exc_cls, 'unscripted': w.unscripted}


def observed_env(tr):
    """Rebuild the environment from what was OBSERVED (not from the script): used by trace validation."""
    env = {}
    log = tr['log']
    for i, e in enumerate(log):
        k = e['ev']
        if k == 'get':
            key = ('src', e['idx'], e['name'])
            if e['ans'] in ('nf', 'err'):
                env[key] = {'r': e['ans'], 'mods': []}
            else:
                env.setdefault(key, {'r': 'data', 'mods': []})
        elif k == 'parse':
            key = ('src', e['idx'], e['name'])
            if e['ans'] != 'ok':
                env[key] = {'r': e['ans'], 'mods': []}
            elif not e['mods']:
                env[key] = {'r': 'empty', 'mods': []}
            else:
                env[key] = {'r': 'ok', 'mods': [{'name': n, 'imp': [], 'sem': 'ok'} for n in e['mods']]}
        elif k == 'sym':
            key = ('src', e['idx'], e['file'])
            a = env.get(key)
            if a and a['r'] == 'ok':
                for m in a['mods']:
                    if m['name'] == e['name']:
                        m['sem'] = 'ok' if e['ans'] == 'ok' else 'symerr'
                        m['imp'] = list(e['imp'])
        elif k == 'sea':
            phase = 'bsea' if any(x['ev'] == 'bor' and x['name'] == e['name'] and x['ans'] == 'ok' for x in log[:i]) else 'sea'
            env[(phase, e['idx'], e['name'])] = {'r': e['ans'], 'mods': []}
        elif k == 'gen':
            env[('gen', 0, e['name'])] = {'r': e['ans'], 'mods': []}
        elif k == 'bor':
            env[('bor', e['idx'], e['name'])] = {'r': e['ans'], 'mods': []}
        elif k == 'put':
            env[('put', 0, e['name'])] = {'r': e['ans'], 'mods': []}
    for o, v in tr['opts'].items():
        env[('opt', 0, o)] = {'r': 'T' if v else 'F', 'mods': []}
    for i, f in enumerate(tr['flavs']):
        env[('bflav', i + 1, '-')] = {'r': 'T' if f else 'F', 'mods': []}
    return [{'k': list(k), 'r': v['r'] if v['r'] != 'data' else 'nf', 'mods': v['mods']} for k, v in env.items()]
