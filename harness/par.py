"""Parallel replay helper (fork pool; workers inherit sys.path and the imported pysmi from /repo)."""
import multiprocessing
import os


def pmap(fn, items, procs=None, chunk=16):
    items = list(items)
    if len(items) < 8:
        return [fn(x) for x in items]
    procs = procs or max(2, min(14, (os.cpu_count() or 4) - 2))
    ctx = multiprocessing.get_context('fork')
    with ctx.Pool(procs) as pool:
        return pool.map(fn, items, chunksize=chunk)
