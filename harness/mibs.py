"""MIB fixtures and the real-pipeline runner used by the data-transformation checks.

The SMI base modules are abridged renderings written for this harness (scenario data): they define the
OID spine, the application types and the textual conventions that scenario modules import, with the
MACRO definitions the real modules carry (pysmi's lexer skips MACRO bodies).
"""
import hashlib

SNMPV2_SMI = '''SNMPv2-SMI DEFINITIONS ::= BEGIN

org            OBJECT IDENTIFIER ::= { iso 3 }
dod            OBJECT IDENTIFIER ::= { org 6 }
internet       OBJECT IDENTIFIER ::= { dod 1 }
directory      OBJECT IDENTIFIER ::= { internet 1 }
mgmt           OBJECT IDENTIFIER ::= { internet 2 }
mib-2          OBJECT IDENTIFIER ::= { mgmt 1 }
transmission   OBJECT IDENTIFIER ::= { mib-2 10 }
experimental   OBJECT IDENTIFIER ::= { internet 3 }
private        OBJECT IDENTIFIER ::= { internet 4 }
enterprises    OBJECT IDENTIFIER ::= { private 1 }
security       OBJECT IDENTIFIER ::= { internet 5 }
snmpV2         OBJECT IDENTIFIER ::= { internet 6 }
snmpDomains    OBJECT IDENTIFIER ::= { snmpV2 1 }
snmpProxys     OBJECT IDENTIFIER ::= { snmpV2 2 }
snmpModules    OBJECT IDENTIFIER ::= { snmpV2 3 }

MODULE-IDENTITY MACRO ::=
BEGIN
    TYPE NOTATION ::= "LAST-UPDATED" value(Update ExtUTCTime)
    VALUE NOTATION ::= value(VALUE OBJECT IDENTIFIER)
END

OBJECT-IDENTITY MACRO ::=
BEGIN
    TYPE NOTATION ::= "STATUS" Status
    VALUE NOTATION ::= value(VALUE OBJECT IDENTIFIER)
END

Integer32 ::= INTEGER (-2147483648..2147483647)
IpAddress ::= [APPLICATION 0] IMPLICIT OCTET STRING (SIZE (4))
Counter32 ::= [APPLICATION 1] IMPLICIT INTEGER (0..4294967295)
Gauge32 ::= [APPLICATION 2] IMPLICIT INTEGER (0..4294967295)
Unsigned32 ::= [APPLICATION 2] IMPLICIT INTEGER (0..4294967295)
TimeTicks ::= [APPLICATION 3] IMPLICIT INTEGER (0..4294967295)
Opaque ::= [APPLICATION 4] IMPLICIT OCTET STRING
Counter64 ::= [APPLICATION 6] IMPLICIT INTEGER (0..18446744073709551615)

OBJECT-TYPE MACRO ::=
BEGIN
    TYPE NOTATION ::= "SYNTAX" Syntax
    VALUE NOTATION ::= value(VALUE ObjectName)
END

NOTIFICATION-TYPE MACRO ::=
BEGIN
    TYPE NOTATION ::= ObjectsPart
    VALUE NOTATION ::= value(VALUE NotificationName)
END

zeroDotZero    OBJECT-IDENTITY
    STATUS     current
    DESCRIPTION "A value used for null identifiers."
    ::= { 0 0 }

END
'''

SNMPV2_TC = '''SNMPv2-TC DEFINITIONS ::= BEGIN

IMPORTS TimeTicks FROM SNMPv2-SMI;

TEXTUAL-CONVENTION MACRO ::=
BEGIN
    TYPE NOTATION ::= DisplayPart
    VALUE NOTATION ::= value(VALUE Syntax)
END

DisplayString ::= TEXTUAL-CONVENTION
    DISPLAY-HINT "255a"
    STATUS       current
    DESCRIPTION  "Represents textual information."
    SYNTAX       OCTET STRING (SIZE (0..255))

PhysAddress ::= TEXTUAL-CONVENTION
    DISPLAY-HINT "1x:"
    STATUS       current
    DESCRIPTION  "Represents media- or physical-level addresses."
    SYNTAX       OCTET STRING

MacAddress ::= TEXTUAL-CONVENTION
    DISPLAY-HINT "1x:"
    STATUS       current
    DESCRIPTION  "Represents an 802 MAC address."
    SYNTAX       OCTET STRING (SIZE (6))

TruthValue ::= TEXTUAL-CONVENTION
    STATUS       current
    DESCRIPTION  "Represents a boolean value."
    SYNTAX       INTEGER { true(1), false(2) }

TestAndIncr ::= TEXTUAL-CONVENTION
    STATUS       current
    DESCRIPTION  "Represents integer-valued information used for atomic operations."
    SYNTAX       INTEGER (0..2147483647)

AutonomousType ::= TEXTUAL-CONVENTION
    STATUS       current
    DESCRIPTION  "Represents an independently extensible type identification value."
    SYNTAX       OBJECT IDENTIFIER

RowStatus ::= TEXTUAL-CONVENTION
    STATUS       current
    DESCRIPTION  "Used to manage the creation and deletion of conceptual rows."
    SYNTAX       INTEGER { active(1), notInService(2), notReady(3), createAndGo(4), createAndWait(5), destroy(6) }

TimeStamp ::= TEXTUAL-CONVENTION
    STATUS       current
    DESCRIPTION  "The value of sysUpTime at which a specific occurrence happened."
    SYNTAX       TimeTicks

DateAndTime ::= TEXTUAL-CONVENTION
    DISPLAY-HINT "2d-1d-1d,1d:1d:1d.1d,1a1d:1d"
    STATUS       current
    DESCRIPTION  "A date-time specification."
    SYNTAX       OCTET STRING (SIZE (8 | 11))

END
'''

SNMPV2_CONF = '''SNMPv2-CONF DEFINITIONS ::= BEGIN

OBJECT-GROUP MACRO ::=
BEGIN
    TYPE NOTATION ::= ObjectsPart
    VALUE NOTATION ::= value(VALUE OBJECT IDENTIFIER)
END

NOTIFICATION-GROUP MACRO ::=
BEGIN
    TYPE NOTATION ::= NotificationsPart
    VALUE NOTATION ::= value(VALUE OBJECT IDENTIFIER)
END

MODULE-COMPLIANCE MACRO ::=
BEGIN
    TYPE NOTATION ::= "STATUS" Status
    VALUE NOTATION ::= value(VALUE OBJECT IDENTIFIER)
END

AGENT-CAPABILITIES MACRO ::=
BEGIN
    TYPE NOTATION ::= "PRODUCT-RELEASE" Text
    VALUE NOTATION ::= value(VALUE OBJECT IDENTIFIER)
END

END
'''

RFC1155_SMI = '''RFC1155-SMI DEFINITIONS ::= BEGIN

EXPORTS internet, directory, mgmt, experimental, private, enterprises, OBJECT-TYPE, ObjectName, ObjectSyntax,
        SimpleSyntax, ApplicationSyntax, NetworkAddress, IpAddress, Counter, Gauge, TimeTicks, Opaque;

internet      OBJECT IDENTIFIER ::= { iso org(3) dod(6) 1 }
directory     OBJECT IDENTIFIER ::= { internet 1 }
mgmt          OBJECT IDENTIFIER ::= { internet 2 }
experimental  OBJECT IDENTIFIER ::= { internet 3 }
private       OBJECT IDENTIFIER ::= { internet 4 }
enterprises   OBJECT IDENTIFIER ::= { private 1 }

OBJECT-TYPE MACRO ::=
BEGIN
    TYPE NOTATION ::= "SYNTAX" type (TYPE ObjectSyntax)
    VALUE NOTATION ::= value (VALUE ObjectName)
END

END
'''

RFC_1212 = '''RFC-1212 DEFINITIONS ::= BEGIN

OBJECT-TYPE MACRO ::=
BEGIN
    TYPE NOTATION ::= "SYNTAX" type(ObjectSyntax)
    VALUE NOTATION ::= value (VALUE ObjectName)
END

END
'''

RFC_1215 = '''RFC-1215 DEFINITIONS ::= BEGIN

TRAP-TYPE MACRO ::=
BEGIN
    TYPE NOTATION ::= "ENTERPRISE" value (enterprise OBJECT IDENTIFIER)
    VALUE NOTATION ::= value (VALUE INTEGER)
END

END
'''

RFC1213_MIB = '''RFC1213-MIB DEFINITIONS ::= BEGIN

IMPORTS mgmt, NetworkAddress, IpAddress, Counter, Gauge, TimeTicks FROM RFC1155-SMI
        OBJECT-TYPE FROM RFC-1212;

mib-2      OBJECT IDENTIFIER ::= { mgmt 1 }
DisplayString ::= OCTET STRING
PhysAddress ::= OCTET STRING
system     OBJECT IDENTIFIER ::= { mib-2 1 }
interfaces OBJECT IDENTIFIER ::= { mib-2 2 }
at         OBJECT IDENTIFIER ::= { mib-2 3 }
ip         OBJECT IDENTIFIER ::= { mib-2 4 }
icmp       OBJECT IDENTIFIER ::= { mib-2 5 }
tcp        OBJECT IDENTIFIER ::= { mib-2 6 }
udp        OBJECT IDENTIFIER ::= { mib-2 7 }
egp        OBJECT IDENTIFIER ::= { mib-2 8 }
transmission OBJECT IDENTIFIER ::= { mib-2 10 }
snmp       OBJECT IDENTIFIER ::= { mib-2 11 }

sysDescr OBJECT-TYPE
    SYNTAX  DisplayString (SIZE (0..255))
    ACCESS  read-only
    STATUS  mandatory
    DESCRIPTION "A textual description of the entity."
    ::= { system 1 }

END
'''

BASE = {
    'SNMPv2-SMI': SNMPV2_SMI, 'SNMPv2-TC': SNMPV2_TC, 'SNMPv2-CONF': SNMPV2_CONF,
    'RFC1155-SMI': RFC1155_SMI, 'RFC1065-SMI': RFC1155_SMI.replace('RFC1155-SMI', 'RFC1065-SMI'),
    'RFC-1212': RFC_1212, 'RFC-1215': RFC_1215, 'RFC1213-MIB': RFC1213_MIB,
}
BASE_NAMES = tuple(BASE)


def digest(x):
    return hashlib.sha1(repr(x).encode('utf-8', 'replace')).hexdigest()[:12]


def make_parser(dialect='smiV1Relaxed'):
    from pysmi.parser.smi import parserFactory
    from pysmi.parser import dialect as D
    return parserFactory(**getattr(D, dialect))()


class Pipeline(object):
    """MibCompiler over in-memory texts (CallbackReader / CallbackWriter), real parser, real code generator."""

    def __init__(self, texts, backend='json', dialect='smiV1Relaxed', stub_base=True, compiler=None, **genopts):
        from pysmi.reader.callback import CallbackReader
        from pysmi.writer.callback import CallbackWriter
        from pysmi.searcher.stub import StubSearcher
        from pysmi.compiler import MibCompiler
        from pysmi.codegen.jsondoc import JsonCodeGen
        from pysmi.codegen.pysnmp import PySnmpCodeGen
        self.texts = dict(BASE)
        self.texts.update(texts)
        self.written = {}
        cg = JsonCodeGen() if backend == 'json' else PySnmpCodeGen()
        self.codegen = cg
        self.compiler = compiler or MibCompiler(make_parser(dialect), cg, CallbackWriter(self._put))
        if compiler is None:
            self.compiler.addSources(CallbackReader(self._get))
            if stub_base:
                self.compiler.addSearchers(StubSearcher(*BASE_NAMES))

    def _get(self, name, cbCtx):
        return self.texts.get(name, '')

    def _put(self, name, data, cbCtx):
        self.written[name] = data

    def compile(self, *names, **options):
        opts = dict(genTexts=False)
        opts.update(options)
        return self.compiler.compile(*names, **opts)


def status_summary(st):
    """Projection of a MibStatus: what C01/C12 call the per-module summary."""
    d = {'status': str(st)}
    for k in ('identity', 'enterprise', 'alias'):
        if hasattr(st, k):
            d[k] = getattr(st, k)
    if hasattr(st, 'oids'):
        d['oids'] = sorted(st.oids)
    if hasattr(st, 'compliance'):
        d['compliance'] = list(st.compliance)
    if hasattr(st, 'revision'):
        d['revision'] = str(st.revision)
    if hasattr(st, 'error'):
        d['error'] = '%s: %s' % (type(st.error).__name__, st.error)
    return d


def type_order_witness(texts, error):
    """Why is a generated type class used before it is defined?  (witness class of the open finding F-*-pysnmp-type-order)
    texts: {module: MIB text};  error: the loader's message ending in "NameError: name 'X' is not defined".
    -> 'declared-before-parent' (the MIB declares the derived type before its parent),
       'plain-from-tc' (a plain type derived from a TEXTUAL-CONVENTION: all plain types are emitted first),
       'emitted-out-of-order' (the MIB declares parent first and both are of one kind: the generator reordered them),
       'unknown' (the name is not a type declared in these modules)."""
    import re
    m = re.search(r"name '([\w-]+)' is not defined", error or '')
    if not m:
        return 'unknown'
    parent = m.group(1)
    for text in texts.values():
        decls = []      # (name, is_tc, parent type, position)
        for mm in re.finditer(r'^([A-Za-z][\w-]*) ::= (TEXTUAL-CONVENTION\b[^\n]*(?:\n[ \t]+[^\n]*)*?\n?[ \t]*SYNTAX[ \t]+([A-Za-z][\w-]*)|([A-Za-z][\w-]*))', text, re.M):
            is_tc = mm.group(2).startswith('TEXTUAL-CONVENTION')
            decls.append((mm.group(1), is_tc, mm.group(3) if is_tc else mm.group(4), mm.start()))
        byname = {d[0].replace('-', '_'): d for d in decls}
        if parent not in byname:
            continue
        p = byname[parent]
        kids = [d for d in decls if d[2] and d[2].replace('-', '_') == parent]
        if not kids:
            continue
        if any(d[3] < p[3] for d in kids):
            return 'declared-before-parent'
        if p[1] and any(not d[1] for d in kids):
            return 'plain-from-tc'
        return 'emitted-out-of-order'
    return 'unknown'
