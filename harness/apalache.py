"""Run Apalache (symbolic model checker) on a typed TLA+ module; used for inductive-invariant obligations."""
import os
import re
import shutil
import subprocess
import time

from harness import tlc


def check(module, init, inv, length, timeout=900):
    """-> dict(ok, outcome, wall_s).  ok = Apalache reports NoError for the obligation."""
    d = tlc.mkscratch('apa-')
    shutil.copy(os.path.join(tlc.SPECS, module + '.tla'), os.path.join(d, module + '.tla'))
    t0 = time.time()
    try:
        p = subprocess.run(['apalache-mc', 'check', '--init=' + init, '--inv=' + inv, '--length=%d' % length,
                            '--out-dir=' + os.path.join(d, 'out'), module + '.tla'], cwd=d, stdout=subprocess.PIPE,
                           stderr=subprocess.STDOUT, universal_newlines=True, timeout=timeout)
        text = p.stdout
    except subprocess.TimeoutExpired:
        text = 'TIMEOUT'
    finally:
        wall = time.time() - t0
    m = re.search(r'The outcome is: (\w+)', text)
    shutil.rmtree(d, ignore_errors=True)
    return {'obligation': '%s: init=%s inv=%s length=%d' % (module, init, inv, length), 'outcome': m.group(1) if m else 'none',
            'ok': bool(m and m.group(1) == 'NoError'), 'wall_s': round(wall, 1), 'tail': '' if m else text[-600:]}
