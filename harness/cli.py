"""Run scripts/mibdump.py and scripts/mibcopy.py on materialised trees and observe them.

Two ways to run a script:
  * in-process (runpy) with MibCompiler.compile / buildIndex wrapped by recording proxies, so the status map the
    script worked with is observed from the SAME execution as its report, exit status and files;
  * as a real subprocess (`python scripts/<tool>.py ...`) - only exit status, stderr and files are visible.
No hook in /repo is needed for either.
"""
import contextlib
import io
import os
import re
import runpy
import subprocess
import sys

REPO = os.environ.get('VERIF_REPO', '/repo')
PY = '/venv/bin/python'


def script(tool):
    return os.path.join(REPO, 'scripts', tool + '.py')


def snapshot(d):
    """{relative path: (inode, mtime_ns, size, sha)} of regular files, __pycache__ and *.pyc projected away."""
    import hashlib
    out = {}
    if not os.path.isdir(d):
        return out
    for root, dirs, files in os.walk(d):
        dirs[:] = [x for x in dirs if x != '__pycache__']
        for f in files:
            if f.endswith('.pyc'):
                continue
            p = os.path.join(root, f)
            st = os.stat(p)
            with open(p, 'rb') as fh:
                h = hashlib.sha1(fh.read()).hexdigest()[:12]
            out[os.path.relpath(p, d)] = (st.st_ino, st.st_mtime_ns, st.st_size, h)
    return out


def diff_snap(before, after):
    """names created, rewritten (new inode/mtime/content), removed"""
    created = sorted(k for k in after if k not in before)
    rewritten = sorted(k for k in after if k in before and after[k] != before[k])
    removed = sorted(k for k in before if k not in after)
    return created, rewritten, removed


_CATS = [('compiled', re.compile(r'^(?:Would be c|C)reated/updated MIBs: (.*)$')),
         ('borrowed', re.compile(r'^Pre-compiled MIBs (?:Would be )?borrowed: (.*)$')),
         ('untouched', re.compile(r'^Up to date MIBs: (.*)$')),
         ('missing', re.compile(r'^Missing source MIBs: (.*)$')),
         ('unprocessed', re.compile(r'^Ignored MIBs: (.*)$')),
         ('failed', re.compile(r'^Failed MIBs: (.*)$'))]


def _split_items(s):
    """'A (x, y), B' -> ['A (x, y)', 'B'] (commas inside parentheses do not separate)."""
    items, depth, cur = [], 0, ''
    for ch in s:
        if ch == '(':
            depth += 1
        elif ch == ')':
            depth = max(0, depth - 1)
        if ch == ',' and depth == 0:
            items.append(cur.strip())
            cur = ''
        else:
            cur += ch
    if cur.strip():
        items.append(cur.strip())
    return items


def parse_dump_report(stderr):
    """-> {category: [module names]} or None when the report block is absent; 'dry' tells the wording used."""
    rep, dry = {}, None
    for line in stderr.replace('\r', '').split('\n'):
        for cat, rx in _CATS:
            m = rx.match(line)
            if m:
                if cat == 'compiled':
                    dry = line.startswith('Would be')
                rep[cat] = [it.split(' ', 1)[0] for it in _split_items(m.group(1))]
    if not rep:
        return None, dry
    return rep, dry


_COPY = re.compile(r'^(COPIED|NOT COPIED|FAILED) (\S+)(?: \((\S+)\))?$')
_TOTAL = re.compile(r'^MIBs seen: (\d+), copied: (\d+), failed: (\d+)$')


def parse_copy_report(stderr):
    lines, totals = [], None
    for line in stderr.replace('\r', '').split('\n'):
        m = _COPY.match(line)
        if m:
            lines.append({'what': m.group(1), 'path': m.group(2), 'mod': m.group(3) or ''})
        m = _TOTAL.match(line)
        if m:
            totals = [int(m.group(1)), int(m.group(2)), int(m.group(3))]
    return lines, totals


class RunawayScript(BaseException):
    """The script did not end within the time any run over the explored worlds needs many times over."""


def _alarm(signum, frame):
    raise RunawayScript()


TIMEOUT_EXIT = 124


def run_inproc(tool, argv, cwd=None, limit=120):
    """Run the script in this process.  Returns dict(exit, stderr, compiles=[{args, options, processed|raised}],
    indexes=[...]).  `processed` is {module: [status, alias|None, has_error]}."""
    from pysmi import compiler as C
    rec = {'compiles': [], 'indexes': []}
    orig_compile, orig_index = C.MibCompiler.compile, C.MibCompiler.buildIndex

    def compile_(self, *names, **options):
        ent = {'names': list(names), 'options': {k: (v if isinstance(v, (bool, int, str, type(None))) else 'obj')
                                                 for k, v in options.items()}}
        rec['compiles'].append(ent)
        try:
            res = orig_compile(self, *names, **options)
        except BaseException as e:
            ent['raised'] = type(e).__name__
            raise
        ent['processed'] = {m: [str(st), getattr(st, 'alias', None), hasattr(st, 'error'),
                                getattr(st, 'path', None), getattr(st, 'revision', None) and str(st.revision)]
                            for m, st in res.items()}
        return res

    def index_(self, processed, **options):
        ent = {'options': dict(options)}
        rec['indexes'].append(ent)
        try:
            return orig_index(self, processed, **options)
        except BaseException as e:
            ent['raised'] = type(e).__name__
            raise

    C.MibCompiler.compile, C.MibCompiler.buildIndex = compile_, index_
    old_argv, old_cwd = sys.argv, os.getcwd()
    err, out = io.StringIO(), io.StringIO()
    code = None
    import signal
    old_handler = signal.signal(signal.SIGALRM, _alarm)
    try:
        sys.argv = [script(tool)] + list(argv)
        if cwd:
            os.chdir(cwd)
        signal.alarm(limit)
        with contextlib.redirect_stderr(err), contextlib.redirect_stdout(out):
            try:
                runpy.run_path(script(tool), run_name='__main__')
                code = 0
            except RunawayScript:
                code = TIMEOUT_EXIT
                rec['escaped'] = 'RunawayScript: no exit after %d s' % limit
            except SystemExit as e:
                code = e.code if isinstance(e.code, int) else (0 if e.code is None else 1)
            except BaseException as e:      # an escaping exception = what the interpreter would turn into exit 1 + traceback
                code = 1
                rec['escaped'] = '%s: %s' % (type(e).__name__, str(e)[:200])
    finally:
        signal.alarm(0)
        signal.signal(signal.SIGALRM, old_handler)
        sys.argv = old_argv
        os.chdir(old_cwd)
        C.MibCompiler.compile, C.MibCompiler.buildIndex = orig_compile, orig_index
        # --debug leaves a module-level logger behind: later runs in this process must start without it
        from pysmi import debug
        import logging
        debug.setLogger(0)
        lg = logging.getLogger('pysmi')
        for h in list(lg.handlers):
            lg.removeHandler(h)
    rec['exit'] = code
    rec['stderr'] = err.getvalue()
    rec['stdout'] = out.getvalue()
    return rec


def run_subproc(tool, argv, cwd=None, timeout=120):
    env = dict(os.environ)
    env['PYTHONPATH'] = REPO
    env.pop('PYSMI_VERIF', None)
    p = subprocess.run([PY, script(tool)] + list(argv), cwd=cwd, env=env, stdout=subprocess.PIPE, stderr=subprocess.PIPE,
                       timeout=timeout, universal_newlines=True)
    return {'exit': p.returncode, 'stderr': p.stderr, 'stdout': p.stdout}
