"""Drive FileWriter / PyFileWriter through an exact schedule of system calls with injected faults.

The modules `os`, `tempfile` and `py_compile` are module attributes of pysmi.writer.localfile / .pyfile;
they are replaced by proxies that forward to the real modules (on a scratch directory), wait for the
schedule to grant the step to the calling thread, inject the writer's fault, and record after every call
what happened and what the directory looks like.  No sleeps: a condition variable hands over the turn.
"""
import hashlib
import os as real_os
import py_compile as real_py_compile
import shutil
import tempfile as real_tempfile
import threading

from pysmi import error

MOD = 'M-MIB'
OLD = 'OLD CONTENT of the module\n' * 7


class Sched(object):
    def __init__(self, order, world):
        self.order = list(order)   # writer names, one per granted call
        self.i = 0
        self.cv = threading.Condition()
        self.done = set()
        self.world = world

    def step(self, w, fn):
        with self.cv:
            while self.i < len(self.order) and self.order[self.i] != w:
                if self.order[self.i] in self.done:
                    self.i += 1
                    self.cv.notify_all()
                    continue
                if not self.cv.wait(2.0):       # schedule cannot be followed (code left the model): free run
                    self.i = len(self.order)
                    self.world.stalled = True
            try:
                return fn()
            finally:
                self.i += 1
                self.cv.notify_all()

    def finish(self, w):
        with self.cv:
            self.done.add(w)
            self.cv.notify_all()


class World(object):
    def __init__(self, d, kind, faults, texts, order, persistent=False):
        self.d, self.kind, self.faults, self.texts = d, kind, faults, texts
        self.persistent = persistent     # an "error" fault hits EVERY call of its site (a step that keeps failing), not only the first
        self.dest = real_os.path.join(d, MOD + ('.py' if kind == 'py' else ''))
        self.events = []
        self.tempof = {}
        self.stalled = False
        self.sched = Sched(order, self)
        self.fired = set()
        self.closed = set()
        self.fds = []                    # descriptors handed out by mkstemp: closed by the harness after the run if the code did not

    def snapshot(self):
        def classify(path, w=None):
            try:
                with open(path, 'rb') as fh:
                    data = fh.read()
            except (IOError, OSError):
                return 'absent', '-'
            if data == OLD.encode('utf-8'):
                return 'old', '-'
            for ww, t in self.texts.items():
                if data == t.encode('utf-8'):
                    return 'new', ww
            for ww, t in self.texts.items():
                if t.encode('utf-8').startswith(data) and (w is None or w == ww):
                    return ('empty' if not data else 'partial'), ww
            return 'partial', '?'
        k, w = classify(self.dest)
        if k == 'empty':
            k = 'partial'
        temps = {}
        for ww in self.texts:
            t = self.tempof.get(ww)
            if t is None or not real_os.path.exists(t):
                temps[ww] = 'none'
            else:
                kk, _ = classify(t, ww)
                temps[ww] = {'new': 'full', 'absent': 'none', 'old': 'partial'}.get(kk, kk)
        known = {real_os.path.basename(self.dest), '__pycache__'} | {real_os.path.basename(t) for t in self.tempof.values()}
        try:
            listing = sorted(real_os.listdir(self.d))
        except OSError:
            listing = []
        foreign = [f for f in listing if f not in known]
        pyc = real_os.path.isdir(real_os.path.join(self.d, '__pycache__')) and bool(real_os.listdir(real_os.path.join(self.d, '__pycache__')))
        return {'dest': {'k': k, 'w': w}, 'temps': temps, 'pyc': pyc, 'foreign': foreign}

    def record(self, w, call, res):
        e = {'w': w, 'call': call, 'res': res}
        e.update(self.snapshot())
        self.events.append(e)

    def fault(self, w, call):
        f = self.faults.get(w)
        if f and f['s'] == call and (w, call) not in self.fired:
            if not (self.persistent and f['k'] == 'error'):
                self.fired.add((w, call))
            return f['k']
        return None


def me():
    return threading.current_thread().name


class PathProxy(object):
    def __init__(self, world):
        self._w = world

    def __getattr__(self, name):
        attr = getattr(real_os.path, name)
        if name != 'exists':
            return attr
        world = self._w

        def exists(p):
            def run():
                r = attr(p)
                world.record(me(), 'exists', 'T' if r else 'F')
                return r
            return world.sched.step(me(), run)
        return exists


class OsProxy(object):
    CALLS = ('makedirs', 'write', 'close', 'rename', 'unlink', 'access')

    def __init__(self, world):
        self._w = world
        self.path = PathProxy(world)

    def __getattr__(self, name):
        attr = getattr(real_os, name)
        if name not in self.CALLS:
            return attr
        world = self._w

        def call(*a, **kw):
            w = me()
            if name == 'access':
                if a and a[0] != world.dest:        # probing one's own temporary file: not a step of the model
                    return attr(*a, **kw)

                def probe():
                    r = attr(*a, **kw)
                    world.record(w, 'access', 'T' if r else 'F')
                    return r
                return world.sched.step(w, probe)

            def run():
                k = world.fault(w, name)
                if k == 'error':
                    world.record(w, name, 'err')
                    raise OSError(5, 'injected I/O error in %s' % name)
                if k == 'short' and name == 'write' and len(a[1]) > 1:
                    n = attr(a[0], a[1][:max(1, len(a[1]) // 2)])
                    world.record(w, name, 'short')
                    return n
                try:
                    r = attr(*a, **kw)
                except OSError:
                    world.record(w, name, 'err')
                    raise
                if name == 'close':
                    world.closed.add(a[0])
                world.record(w, name, 'ok')
                return r
            return world.sched.step(w, run)
        return call


class TempfileProxy(object):
    def __init__(self, world):
        self._w = world

    def __getattr__(self, name):
        attr = getattr(real_tempfile, name)
        if name != 'mkstemp':
            return attr
        world = self._w

        def mkstemp(*a, **kw):
            w = me()

            def run():
                if world.fault(w, 'mkstemp') == 'error':
                    world.record(w, 'mkstemp', 'err')
                    raise OSError(28, 'injected: no space for temp file')
                try:
                    fd, name_ = attr(*a, **kw)
                except OSError:
                    world.record(w, 'mkstemp', 'err')
                    raise
                world.tempof[w] = name_
                world.fds.append(fd)
                world.record(w, 'mkstemp', 'ok')
                return fd, name_
            return world.sched.step(w, run)
        return mkstemp


class PyCompileProxy(object):
    def __init__(self, world):
        self._w = world

    def __getattr__(self, name):
        attr = getattr(real_py_compile, name)
        if name != 'compile':
            return attr
        world = self._w

        def compile_(*a, **kw):
            w = me()

            def run():
                if world.fault(w, 'pycompile') == 'error':
                    world.record(w, 'pycompile', 'err')
                    raise OSError(5, 'injected I/O error while byte-compiling')
                try:
                    r = attr(*a, **kw)
                except (SyntaxError, real_py_compile.PyCompileError):
                    world.record(w, 'pycompile', 'ok')     # the writer deliberately ignores syntax problems
                    raise
                except Exception:
                    world.record(w, 'pycompile', 'err')
                    raise
                world.record(w, 'pycompile', 'ok')
                return r
            return world.sched.step(w, run)
        return compile_


_lock = threading.Lock()


_RUNS = 0


def run(scratch, kind, writers, faults, order, dest0, dir0, dry, texts, persistent=False):
    """Execute putData() for each writer in its own thread along `order`; returns the trace dict."""
    import pysmi.writer.localfile as LF
    import pysmi.writer.pyfile as PF
    # a directory of its own for every run: a writer thread left behind by an earlier (stalled) schedule cannot touch it
    global _RUNS
    _RUNS += 1
    d = real_os.path.join(scratch, 'dst%d' % _RUNS)
    shutil.rmtree(d, ignore_errors=True)
    if dir0 or dest0 == 'old':
        real_os.makedirs(d)
    world = World(d, kind, faults, texts, order, persistent)
    if dest0 == 'old':
        with open(world.dest, 'wb') as fh:
            fh.write(OLD.encode('utf-8'))

    def listing():
        out = []
        if real_os.path.isdir(d):
            for root, dirs, files in real_os.walk(d):
                for f in sorted(files):
                    p = real_os.path.join(root, f)
                    with open(p, 'rb') as fh:
                        out.append([real_os.path.relpath(p, d), hashlib.sha1(fh.read()).hexdigest()[:12]])
        else:
            out.append(['<no directory>', ''])
        return sorted(out)
    before = listing()
    mod = PF if kind == 'py' else LF
    final = {}

    def work(w):
        try:
            wr = mod.PyFileWriter(d) if kind == 'py' else mod.FileWriter(d)
            wr.putData(MOD, texts[w], dryRun=dry)
            final[w] = ['returned', '-']
        except error.PySmiWriterError:
            final[w] = ['raised', 'PySmiWriterError']
        except BaseException as exc:
            final[w] = ['raised', type(exc).__name__]
        finally:
            world.sched.finish(w)
    with _lock:
        saved = (mod.os, mod.tempfile, getattr(mod, 'py_compile', None))
        mod.os, mod.tempfile = OsProxy(world), TempfileProxy(world)
        if kind == 'py':
            mod.py_compile = PyCompileProxy(world)
        try:
            ts = [threading.Thread(target=work, name=w, args=(w,)) for w in writers]
            for t in ts:
                t.start()
            for t in ts:
                t.join(30)
        finally:
            mod.os, mod.tempfile = saved[0], saved[1]
            if kind == 'py':
                mod.py_compile = saved[2]
    after = listing()
    end = world.snapshot()
    for fd in world.fds:
        if fd in world.closed:
            continue
        try:
            real_os.close(fd)
        except OSError:
            pass
    shutil.rmtree(d, ignore_errors=True)
    return {'kind': kind, 'writers': list(writers), 'faults': {w: faults.get(w, {'s': 'none', 'k': 'none'}) for w in writers},
            'dry': bool(dry), 'dest0': dest0, 'dir0': bool(dir0 or dest0 == 'old'), 'events': world.events,
            'final': {w: final.get(w, ['hung', '-']) for w in writers}, 'end': end,
            'unchanged': before == after, 'stalled': world.stalled}
