"""Render abstract module descriptions (as exported by the TLA+ scenario models) to MIB text and observe
what the real pipeline makes of them (JSON document, executed pysnmp module, per-module summary).

A module description is a dict:
   {'name': 'A-MIB', 'imports': [[from_module, [symbols...]], ...], 'decls': [decl, ...]}
and a decl is a dict with key 'k' (kind) - see render_decl().  OID values are
   {'parent': name | 'iso' | None, 'arcs': [[label|None, number], ...]}
"""
import json
import os
import shutil
import sys


def oid_value(o):
    parts = []
    if o.get('parent'):
        parts.append(o['parent'])
    for label, n in o['arcs']:
        parts.append('%s(%d)' % (label, n) if label else str(n))
    return '{ ' + ' '.join(parts) + ' }'


def q(text):
    return '"%s"' % (text if text is not None else '')


def render_syntax(s):
    """s: {'base': 'Integer32', 'ranges': [[lo, hi|None]..] | 'sizes': [...] | 'enum': [[label, n]..] | 'bits': [[label, n]..]}
    literals are already spelled (strings)."""
    if s.get('seqof'):
        return 'SEQUENCE OF %s' % s['seqof']
    base = s['base']
    if 'bits' in s:
        return 'BITS { %s }' % ', '.join('%s(%s)' % (l, n) for l, n in s['bits'])
    if 'enum' in s:
        return '%s { %s }' % (base, ', '.join('%s(%s)' % (l, n) for l, n in s['enum']))
    if 'ranges' in s:
        return '%s (%s)' % (base, ' | '.join(lo if hi is None else '%s..%s' % (lo, hi) for lo, hi in s['ranges']))
    if 'sizes' in s:
        return '%s (SIZE (%s))' % (base, ' | '.join(lo if hi is None else '%s..%s' % (lo, hi) for lo, hi in s['sizes']))
    return base


def render_decl(d, v1=False):
    k = d['k']
    n = d['name']
    desc = d.get('description', 'd')
    status = d.get('status', 'current')
    ref = '\n    REFERENCE %s' % q(d['reference']) if d.get('reference') is not None else ''
    if k == 'value':
        return '%s OBJECT IDENTIFIER ::= %s' % (n, oid_value(d['oid']))
    if k == 'objectidentity':
        return '%s OBJECT-IDENTITY\n    STATUS %s\n    DESCRIPTION %s%s\n    ::= %s' % (n, status, q(desc), ref, oid_value(d['oid']))
    if k == 'objecttype':
        out = ['%s OBJECT-TYPE' % n, '    SYNTAX %s' % render_syntax(d['syntax'])]
        if d.get('units') is not None:
            out.append('    UNITS %s' % q(d['units']))
        acc = d.get('access', 'read-only')
        out.append('    %s %s' % ('ACCESS' if v1 else 'MAX-ACCESS', acc))
        out.append('    STATUS %s' % status)
        if not v1 or d.get('description') is not None:
            out.append('    DESCRIPTION %s' % q(desc))
        if d.get('reference') is not None:
            out.append('    REFERENCE %s' % q(d['reference']))
        if d.get('index'):
            out.append('    INDEX { %s }' % ', '.join(('IMPLIED ' if imp else '') + nm for imp, nm in d['index']))
        if d.get('augments'):
            out.append('    AUGMENTS { %s }' % d['augments'])
        if d.get('defval') is not None:
            out.append('    DEFVAL { %s }' % d['defval'])
        out.append('    ::= %s' % oid_value(d['oid']))
        return '\n'.join(out)
    if k == 'moduleidentity':
        revs = ''.join('\n    REVISION %s\n    DESCRIPTION %s' % (q(r[0]), q(r[1])) for r in d.get('revisions', []))
        return ('%s MODULE-IDENTITY\n    LAST-UPDATED %s\n    ORGANIZATION %s\n    CONTACT-INFO %s\n    DESCRIPTION %s%s\n    ::= %s' % (
            n, q(d.get('lastupdated', '200001010000Z')), q(d.get('organization', 'org')), q(d.get('contact', 'contact')), q(desc), revs,
            oid_value(d['oid'])))
    if k == 'notificationtype':
        objs = '\n    OBJECTS { %s }' % ', '.join(d['objects']) if d.get('objects') else ''
        return '%s NOTIFICATION-TYPE%s\n    STATUS %s\n    DESCRIPTION %s%s\n    ::= %s' % (n, objs, status, q(desc), ref, oid_value(d['oid']))
    if k == 'traptype':
        var = '\n    VARIABLES { %s }' % ', '.join(d['objects']) if d.get('objects') else ''
        dsc = '\n    DESCRIPTION %s' % q(desc) if d.get('description') is not None else ''
        return '%s TRAP-TYPE\n    ENTERPRISE %s%s%s%s\n    ::= %d' % (n, d['enterprise'], var, dsc, ref, d['number'])
    if k == 'objectgroup':
        return '%s OBJECT-GROUP\n    OBJECTS { %s }\n    STATUS %s\n    DESCRIPTION %s%s\n    ::= %s' % (
            n, ', '.join(d['objects']), status, q(desc), ref, oid_value(d['oid']))
    if k == 'notificationgroup':
        return '%s NOTIFICATION-GROUP\n    NOTIFICATIONS { %s }\n    STATUS %s\n    DESCRIPTION %s%s\n    ::= %s' % (
            n, ', '.join(d['objects']), status, q(desc), ref, oid_value(d['oid']))
    if k == 'modulecompliance':
        parts = []
        for m in d.get('modules', [{'name': None, 'mandatory': [], 'items': []}]):
            p = '    MODULE%s' % (' ' + m['name'] if m.get('name') else '')
            if m.get('mandatory'):
                p += '\n        MANDATORY-GROUPS { %s }' % ', '.join(m['mandatory'])
            for it in m.get('items', []):
                if it[0] == 'group':
                    p += '\n        GROUP %s\n        DESCRIPTION "g"' % it[1]
                else:
                    p += '\n        OBJECT %s\n        MIN-ACCESS read-only\n        DESCRIPTION "o"' % it[1]
            parts.append(p)
        return '%s MODULE-COMPLIANCE\n    STATUS %s\n    DESCRIPTION %s%s\n%s\n    ::= %s' % (n, status, q(desc), ref, '\n'.join(parts), oid_value(d['oid']))
    if k == 'agentcapabilities':
        return ('%s AGENT-CAPABILITIES\n    PRODUCT-RELEASE %s\n    STATUS %s\n    DESCRIPTION %s%s\n    ::= %s' % (
            n, q(d.get('release', 'rel 1')), status, q(desc), ref, oid_value(d['oid'])))
    if k == 'type':
        return '%s ::= %s' % (n, render_syntax(d['syntax']))
    if k == 'tc':
        hint = '\n    DISPLAY-HINT %s' % q(d['hint']) if d.get('hint') is not None else ''
        return '%s ::= TEXTUAL-CONVENTION%s\n    STATUS %s\n    DESCRIPTION %s%s\n    SYNTAX %s' % (n, hint, status, q(desc), ref, render_syntax(d['syntax']))
    if k == 'sequence':
        return '%s ::= SEQUENCE { %s }' % (n, ', '.join('%s %s' % (c, t) for c, t in d['members']))
    raise ValueError('unknown decl kind %r' % k)


def render_module(m, v1=False):
    out = ['%s DEFINITIONS ::= BEGIN' % m['name']]
    imps = [(frm, syms) for frm, syms in m.get('imports', []) if syms]
    if imps:
        out.append('IMPORTS')
        for frm, syms in imps:
            out.append('    %s FROM %s' % (', '.join(syms), frm))
        out[-1] += ';'
    out.append('')
    for d in m['decls']:
        out.append(render_decl(d, v1=v1))
        out.append('')
    out.append('END')
    return '\n'.join(out) + '\n'


# ------------------------------------------------------------------ observation
def und(name):
    return name.replace('-', '_')


def observe_json(text):
    """-> (doc dict or None, duplicate keys, error)"""
    dups = []

    def hook(pairs):
        seen = set()
        for k, _ in pairs:
            if k in seen:
                dups.append(k)
            seen.add(k)
        return dict(pairs)
    try:
        return json.loads(text, object_pairs_hook=hook), dups, None
    except ValueError as exc:
        return None, dups, str(exc)


def load_pysnmp(texts, scratch, load_order=None, load_texts=True):
    """Execute generated pysnmp modules with the real pysnmp MibBuilder.
    texts: {module: python text}.  Returns (symbols {module: {sym: obj}}, errors {module: str})."""
    from pysnmp.smi import builder
    d = os.path.join(scratch, 'pymibs')
    shutil.rmtree(d, ignore_errors=True)
    os.makedirs(d)
    for mod, text in texts.items():
        with open(os.path.join(d, mod + '.py'), 'w') as fh:
            fh.write(text)
    mb = builder.MibBuilder()
    mb.loadTexts = load_texts
    mb.add_mib_sources(builder.DirMibSource(d)) if hasattr(mb, 'add_mib_sources') else mb.addMibSources(builder.DirMibSource(d))
    errors, syms = {}, {}
    for mod in (load_order or sorted(texts)):
        try:
            (mb.load_modules if hasattr(mb, 'load_modules') else mb.loadModules)(mod)
        except Exception as exc:
            errors[mod] = '%s: ...%s' % (type(exc).__name__, ' '.join(str(exc).split())[-300:])
    for mod in texts:
        syms[mod] = dict(mb.mibSymbols.get(mod, {}))
    sys.dont_write_bytecode = True
    return syms, errors
