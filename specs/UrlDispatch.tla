----------------------------- MODULE UrlDispatch -----------------------------
(* Decision table: which reader kind do the scheme and the extension of a    *)
(* source URL denote (C14, last clause)?  Every row is exported and compared *)
(* with what getReadersFromUrls() constructs (no network involved).          *)
EXTENDS Naturals, Sequences, TLC, Json
VARIABLE row
Schemes == {"none", "file", "zip", "http", "https", "ftp", "sftp", "gopher"}
Exts == {"dir", "zip", "ZIP", "txt"}
Paths == [dir |-> "/data/mibs", zip |-> "/data/mibs.zip", ZIP |-> "/data/MIBS.ZIP", txt |-> "/data/mibs.zip.d"]
Url(s, e) == CASE s = "none" -> Paths[e]
               [] s \in {"file", "zip"} -> s \o "://" \o Paths[e]
               [] OTHER -> s \o "://host.example" \o Paths[e] \o "/@mib@"     \* network readers want the @mib@ placeholder
\* local sources: an archive when the scheme says zip or the path ends in .zip/.ZIP, a directory otherwise
Expect(s, e) == CASE s \in {"none", "file", "zip"} -> IF s = "zip" \/ e \in {"zip", "ZIP"} THEN "ZipReader" ELSE "FileReader"
                  [] s \in {"http", "https"} -> "HttpReader"
                  [] s \in {"ftp", "sftp"} -> "FtpReader"
                  [] OTHER -> "PySmiError"
Init == row \in [scheme : Schemes, ext : Exts]
Next == UNCHANGED row
Export == PrintT(ToJson([scheme |-> row.scheme, ext |-> row.ext, url |-> Url(row.scheme, row.ext), expect |-> Expect(row.scheme, row.ext)]))
=============================================================================
