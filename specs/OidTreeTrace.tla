---- MODULE OidTreeTrace ----
(* C01 monitor: observed OIDs (JSON document, executed pysnmp module, per-module summary) against GT. *)
EXTENDS OidTree, Json, IOUtils, TLCExt
VARIABLE tid
Traces == JsonDeserialize(IOEnv.TRACE_FILE)
T == Traces[tid]
NodeOf(j) == [mod |-> j.mod, root |-> j.root, parent |-> j.parent, arcs |-> j.arcs, kind |-> j.kind]
TInit == /\ tid \in 1..Len(Traces)
         /\ nodes = [i \in DOMAIN T.nodes |-> NodeOf(T.nodes[i])]
         /\ decl = [m \in 1..NMods |-> IF m \in DOMAIN T.decl THEN T.decl[m] ELSE <<>>]
TNext == FALSE /\ UNCHANGED <<vars, tid>>
SetOf(s) == {s[i] : i \in DOMAIN s}
Used == {m \in 1..NMods : ModNodes(m) # {}}
O(m) == T.obs[m]
Compiles == \A m \in Used : O(m).status = "compiled" \/ (Cyclic /\ O(m).status = "py-loaderror")
JsonOid == \A i \in DOMAIN nodes : O(nodes[i].mod).status = "compiled" => O(nodes[i].mod).json[i] = GT(i)
PyOid == \A i \in DOMAIN nodes : (O(nodes[i].mod).status = "compiled" /\ T.pysnmp /\ ~Cyclic) => O(nodes[i].mod).py[i] = GT(i)
SummaryOids == \A m \in Used : O(m).status = "compiled" => SetOf(O(m).oids) = OidsOf(m)
SummaryIdentity == \A m \in Used : O(m).status = "compiled" => O(m).identity = IdentityOf(m)
SummaryCompliance == \A m \in Used : O(m).status = "compiled" => SetOf(O(m).compliance) = ComplianceOf(m)
SummaryEnterprise == \A m \in Used : O(m).status = "compiled" =>
   IF EnterpriseCandidates(m) = {} THEN O(m).enterprise = <<>> ELSE O(m).enterprise \in EnterpriseCandidates(m)
Checks == << <<"Compiles", Compiles>>, <<"JsonOid", JsonOid>>, <<"PyOid", PyOid>>, <<"SummaryOids", SummaryOids>>,
             <<"SummaryIdentity", SummaryIdentity>>, <<"SummaryCompliance", SummaryCompliance>>, <<"SummaryEnterprise", SummaryEnterprise>> >>
Report == PrintT(ToJson([id |-> T.id, failed |-> {Checks[i][1] : i \in {j \in DOMAIN Checks : ~Checks[j][2]}}]))
====
