---- MODULE MC_MibCompile ----
(* Model-checking wrappers for MibCompile: constants that cfg files cannot express. *)
EXTENDS MibCompile, Json
Mod(n, i, s) == [name |-> n, imp |-> i, sem |-> s]
Ok(ms) == [r |-> "ok", mods |-> ms]
Fails == {A("nf"), A("err"), A("parseerr"), A("empty")}

\* --- slice q1: two names, file name = module name, every import list, semantic errors
Imp2 == {<<>>, <<"A">>, <<"B">>, <<"B", "A">>}
Req_q1 == {<<"A">>, <<"A", "B">>, <<"A", "A">>}
Src_q1(n) == Fails \cup {Ok(<<Mod(n, i, s)>>) : i \in Imp2, s \in {"ok", "symerr"}}

\* --- slice q2: files named unlike their modules, several modules per file
Req_q2 == {<<"F">>, <<"F", "A">>, <<"A", "F">>}
Src_q2(n) == IF n = "F"
             THEN {A("nf"), A("err")} \cup {Ok(<<Mod("A", i, "ok")>>) : i \in {<<>>, <<"B">>}}
                  \cup {Ok(<<Mod("A", <<>>, "ok"), Mod("B", <<"A">>, s)>>) : s \in {"ok", "symerr"}}
             ELSE {A("nf"), A("parseerr")} \cup {Ok(<<Mod(n, i, "ok")>>) : i \in {<<>>, <<"F">>}}

\* --- slice q6: several modules per file, each with its own imports
Req_q6 == {<<"F">>, <<"B", "F">>}
Src_q6(n) == IF n = "F"
             THEN {A("nf"), A("err")}
                  \cup {Ok(<<Mod("A", i, "ok"), Mod("A2", j, s)>>) : i \in {<<>>, <<"B">>}, j \in {<<>>, <<"A">>, <<"C">>}, s \in {"ok", "symerr"}}
             ELSE {A("nf")} \cup {Ok(<<Mod(n, <<>>, "ok")>>)}

\* --- slice t1 (thorough): three names
Imp3 == {<<>>, <<"A">>, <<"B">>, <<"C">>, <<"B", "C">>, <<"C", "A">>}
Req_t1 == {<<"A">>, <<"A", "B">>, <<"C", "A">>}
Src_t1(n) == Fails \cup {Ok(<<Mod(n, i, s)>>) : i \in Imp3, s \in {"ok", "symerr"}}

\* --- slice q3: downstream phases (searchers, generation, borrowing, decision, writing), small discovery
Req_q3 == {<<"A">>, <<"B", "A">>}
Src_q3(n) == {A("nf"), A("err")} \cup {Ok(<<Mod(n, i, "ok")>>) : i \in (IF n = "A" THEN {<<>>, <<"B">>} ELSE {<<>>})}

\* --- liveness slice: cycles and self imports, every phase reachable; checked under SPECIFICATION Spec (weak fairness)
Req_l1 == {<<"A">>, <<"B", "A">>}
Src_l1(n) == {A("nf"), A("parseerr")} \cup {Ok(<<Mod(n, i, "ok")>>) : i \in {<<>>, <<"A">>, <<"B">>, <<"B", "A">>}}

NoConstImp == <<>>
Export == (pc = "done") => PrintT(ToJson(Scenario))
\* a random seventh of the terminal states (TLC's RandomElement, reproducible through -seed): an unbiased thinning
ExportSome == (pc = "done" /\ RandomElement(1..7) = 1) => PrintT(ToJson(Scenario))
====
