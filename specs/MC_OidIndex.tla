---- MODULE MC_OidIndex ----
EXTENDS OidIndex, Json
Oids_q == { <<1,4>>, <<1,48>>, <<1,4,1>>, <<1,48,1>> }
R(i, e, c, o) == [identity |-> i, enterprise |-> e, compliance |-> c, oids |-> o]
\* summaries: every non-empty OID subset without identity, plus identity/enterprise/compliance variants
Recs_q == {R(None, None, {}, o) : o \in (SUBSET Oids_q) \ {{}}}
          \cup {R(<<1,4>>, <<1,48>>, {<<1,4,1>>}, {<<1,4>>, <<1,4,1>>}), R(<<1,48>>, None, {}, {<<1,48>>}), R(None, <<1,4>>, {<<1,48,1>>, <<1,4,1>>}, {})}
Oids_t == { <<1>>, <<1,4>>, <<1,48>>, <<1,481>>, <<1,4,1>>, <<1,48,1>>, <<1,4,1,48>> }
Recs_t == {R(None, None, {}, o) : o \in {s \in SUBSET Oids_t : Cardinality(s) \in 1..3}}
          \cup {R(<<1,4>>, <<1,48>>, {<<1,4,1>>}, {<<1,4>>, <<1,4,1>>}), R(<<1,48>>, None, {}, {<<1,48>>}), R(None, <<1,4>>, {<<1,48,1>>, <<1,4,1>>}, {})}
SetToSeq(S) == CHOOSE s \in [1..Cardinality(S) -> S] : \A x \in S : \E i \in DOMAIN s : s[i] = x
RecJ(r) == [identity |-> r.identity, enterprise |-> r.enterprise, compliance |-> SetToSeq(r.compliance), oids |-> SetToSeq(r.oids)]
HistJ == [k \in DOMAIN hist |-> [j \in DOMAIN hist[k] |-> [mod |-> hist[k][j].mod, rec |-> RecJ(hist[k][j].rec)]]]
Export == (nbuilds = MaxBuilds) => PrintT(ToJson([hist |-> HistJ]))
View == <<idx, defs, nbuilds, prev>>
====
