---------------------------- MODULE ReaderLookup ----------------------------
(* Which file may a local-directory / ZIP source (and a borrower built on it) *)
(* return for a requested module name (C14, C19 second half)?                 *)
(* Names are sequences of one-character strings so that case conversion and   *)
(* suffix handling are computed HERE, from the documented rule, and not       *)
(* transcribed from getMibVariants():                                         *)
(*   the name as given / upper case / lower case (each if enabled), each with *)
(*   a known extension; with fuzzy matching the -MIB suffix removed if the    *)
(*   name ends in it (any case), else added; an .index mapping replaces all.  *)
(* A source is a set of entries placed at nesting levels 1..3 (top, folder,   *)
(* folder-in-folder / archive-in-archive).  GetData may return ANY reachable  *)
(* file whose name is a variant (listing order is unspecified) - or "not      *)
(* found" only if there is none.                                              *)
EXTENDS Naturals, Sequences, FiniteSets, TLC

LC == <<"a","b","c","d","e","f","g","h","i","j","k","l","m","n","o","p","q","r","s","t","u","v","w","x","y","z">>
UC == <<"A","B","C","D","E","F","G","H","I","J","K","L","M","N","O","P","Q","R","S","T","U","V","W","X","Y","Z">>
UpMap == [c \in {LC[i] : i \in 1..26} |-> UC[CHOOSE i \in 1..26 : LC[i] = c]]     \* evaluated once
LoMap == [c \in {UC[i] : i \in 1..26} |-> LC[CHOOSE i \in 1..26 : UC[i] = c]]
UpC(c) == IF c \in DOMAIN UpMap THEN UpMap[c] ELSE c
LoC(c) == IF c \in DOMAIN LoMap THEN LoMap[c] ELSE c
Upper(s) == [i \in DOMAIN s |-> UpC(s[i])]
Lower(s) == [i \in DOMAIN s |-> LoC(s[i])]
EndsWith(s, t) == Len(s) >= Len(t) /\ SubSeq(s, Len(s) - Len(t) + 1, Len(s)) = t
Chop(s, n) == SubSeq(s, 1, Len(s) - n)
DashMib == <<"-", "m", "i", "b">>

\* extension tables (as character sequences)
Dot(e) == <<".">> \o e
ReaderExts == {<<>>, Dot(<<"t","x","t">>), Dot(<<"m","i","b">>), Dot(<<"m","y">>),
               Dot(<<"T","X","T">>), Dot(<<"M","I","B">>), Dot(<<"M","Y">>)}
PyExts   == {Dot(<<"p","y">>)}
JsonExts == {Dot(<<"j","s","o","n">>)}
ExtsOf(k) == CASE k = "reader" -> ReaderExts [] k = "py" -> PyExts [] k = "json" -> JsonExts [] OTHER -> {<<>>}

\* o = [orig, up, low, fuzzy : BOOLEAN]
Bases(n, o) == (IF o.orig THEN {n} ELSE {}) \cup (IF o.up THEN {Upper(n)} ELSE {}) \cup (IF o.low THEN {Lower(n)} ELSE {})
Fuzzy(n, o) == IF ~o.fuzzy THEN {}
               ELSE IF EndsWith(Lower(n), DashMib) THEN {Chop(b, 4) : b \in Bases(n, o)}
               ELSE (IF o.up THEN {Upper(n \o DashMib)} ELSE {}) \cup (IF o.low THEN {Lower(n \o DashMib)} ELSE {})
Variants(n, o, k) == {b \o e : b \in Bases(n, o) \cup Fuzzy(n, o), e \in ExtsOf(k)}
\* The statement does not say in which case an ADDED suffix is spelled: a returned file may carry it in upper or
\* lower case whatever the case options are (generous reading for "what may be returned"), while "not found" is only
\* wrong if a variant of an ENABLED case exists (strict reading for "what must be found").
FuzzyAny(n, o) == IF o.fuzzy /\ ~EndsWith(Lower(n), DashMib) /\ (o.orig \/ o.up \/ o.low)
                  THEN {Upper(n \o DashMib), Lower(n \o DashMib)} ELSE {}
Allowed(n, o, k) == Variants(n, o, k) \cup {b \o e : b \in FuzzyAny(n, o), e \in ExtsOf(k)}

\* a scenario: request, options, extension family, optional index mapping, entries
\*   entry = [name, level \in 1..3, kind \in {"file", "dir"}, cid \in Nat (content identity), mt (time identity)]
Candidates(sc) == IF sc.index # <<>> THEN {sc.index} ELSE Variants(sc.req, sc.opts, sc.exts)
MayReturn(sc) == IF sc.index # <<>> THEN {sc.index} ELSE Allowed(sc.req, sc.opts, sc.exts)
Reachable(sc) == {e \in sc.entries : e.kind = "file" /\ (sc.recursive \/ e.level = 1)}
Matches(sc) == {e \in Reachable(sc) : e.name \in Candidates(sc)}
MayMatch(sc) == {e \in Reachable(sc) : e.name \in MayReturn(sc)}

\* ---- properties over an observed result  r = [kind |-> "data" | "notfound" | "exc", name, cid, mt, cls]
RightFile(sc, r) == r.kind = "data" => \E e \in MayMatch(sc) : e.name = r.name /\ e.cid = r.cid /\ e.mt = r.mt
NotFoundExactly(sc, r) == /\ r.kind = "notfound" => Matches(sc) = {}
                          /\ r.kind = "data" => MayMatch(sc) # {}
NeverUnrelated(sc, r) == r.kind = "data" => r.name \in MayReturn(sc)
OnlyPackageErrors(sc, r) == r.kind \in {"data", "notfound"}

\* ---- scenarios are grown entry by entry (AddEntry), then the question is asked once (GetData):
\*      the "algorithm" of the design is: any match, or not found
VARIABLES sc, res
vars == <<sc, res>>
CONSTANTS Starts,          \* set of scenarios without entries
          EntryPool(_),    \* request name -> candidate entries
          MaxEntries
NoRes == [kind |-> "-", name |-> <<>>, cid |-> 0, mt |-> 0]
Init == sc \in Starts /\ res = NoRes
AddEntry == /\ res = NoRes /\ Cardinality(sc.entries) < MaxEntries
            /\ \E e \in EntryPool(sc.req) \ sc.entries : sc' = [sc EXCEPT !.entries = @ \cup {e}]
            /\ res' = res
GetData == /\ res = NoRes
           /\ \/ \E e \in Matches(sc) : res' = [kind |-> "data", name |-> e.name, cid |-> e.cid, mt |-> e.mt]
              \/ Matches(sc) = {} /\ res' = [kind |-> "notfound", name |-> <<>>, cid |-> 0, mt |-> 0]
           /\ sc' = sc
Next == AddEntry \/ GetData
Spec == Init /\ [][Next]_vars
P_RightFile == res # NoRes => RightFile(sc, res)
P_NotFoundExactly == res # NoRes => NotFoundExactly(sc, res)
P_NeverUnrelated == res # NoRes => NeverUnrelated(sc, res)
=============================================================================
