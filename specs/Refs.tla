-------------------------------- MODULE Refs --------------------------------
(* C06: structural references of one module (REFS-MIB) that also imports      *)
(* objects from a base module (BASE-T-MIB).  A reference is [m, o]: m = "B"   *)
(* (imported from the base module) or "L" (local), o = object id.  Three      *)
(* independent aspects are varied:                                            *)
(*   table      columns, INDEX list (order, IMPLIED, foreign entries), text    *)
(*              order of table / row / SEQUENCE / columns, an augmenting row   *)
(*   lists      OBJECTS of a notification and of a group, VARIABLES of a trap  *)
(*   compliance MODULE parts (named / unnamed), MANDATORY-GROUPS, GROUP and    *)
(*              OBJECT clauses in every order                                  *)
(* The expected observations are the scenario itself: what is written must be  *)
(* what comes out - same targets, same order, same module attribution.         *)
EXTENDS Naturals, Sequences, FiniteSets, TLC

VARIABLES aspect, sc
vars == <<aspect, sc>>
R(m, o) == [m |-> m, o |-> o]

\* ---------- table aspect
LocalCols == {"c1", "c2", "c3"}
IdxPool(n) == {R("L", c) : c \in {x \in LocalCols : (x = "c1") \/ (x = "c2" /\ n >= 2) \/ (x = "c3" /\ n >= 3)}} \cup {R("B", "bIdx")}
Perms(S) == {s \in [1..Cardinality(S) -> S] : \A i, j \in 1..Cardinality(S) : i # j => s[i] # s[j]}
SeqsNoRep(S, maxlen) == UNION {Perms(T) : T \in {U \in SUBSET S : Cardinality(U) \in 1..maxlen}}
TableScenarios ==
  {[ncols |-> n, index |-> ix, implied |-> im, order |-> od, second |-> sm] :
      n \in 1..3, ix \in SeqsNoRep(IdxPool(3), 3), im \in BOOLEAN, od \in 1..6, sm \in {"none", "augments-local", "augments-base"}}
TableLegal(t) == \A i \in DOMAIN t.index : t.index[i] \in IdxPool(t.ncols)

\* ---------- list aspect
ObjPool == {R("L", "c1"), R("L", "s1"), R("B", "bScalar"), R("B", "bIdx")}
NotifPool == {R("L", "n1"), R("L", "n2"), R("B", "bNotif")}
Lists0(S, maxlen) == {<<>>} \cup SeqsNoRep(S, maxlen)
ListScenarios ==
  {[what |-> w, objs |-> l] : w \in {"notification", "objectgroup", "trap"}, l \in Lists0(ObjPool, 3)}
  \cup {[what |-> "notifgroup", objs |-> l] : l \in SeqsNoRep(NotifPool, 3)}
ListLegal(l) == (l.what = "objectgroup") => l.objs # <<>>

\* ---------- compliance aspect
GroupPool == {R("L", "g1"), R("L", "g2"), R("B", "bGroup")}
Items == {[k |-> "group", r |-> g] : g \in GroupPool} \cup {[k |-> "object", r |-> R("L", "s1")]}
ItemSeqs == UNION {[1..n -> Items] : n \in 0..3}
Part(named, mand, items) == [named |-> named, mand |-> mand, items |-> items]
Parts == {Part(nm, md, it) : nm \in BOOLEAN, md \in Lists0({R("L", "g1"), R("L", "g2")}, 2), it \in ItemSeqs}
NoDup(it) == \A i, j \in DOMAIN it : (i # j /\ it[i].k = "group" /\ it[j].k = "group") => it[i].r # it[j].r
\* a named part speaks about the base module: its groups are that module's
PartLegal(p) == /\ NoDup(p.items)
                /\ \A i \in DOMAIN p.items : p.items[i].k = "group" => (p.items[i].r.m = "B") = p.named
                /\ p.named => p.mand = <<>>
                /\ \A i \in DOMAIN p.items : \A j \in DOMAIN p.mand : p.items[i].k = "group" => p.items[i].r # p.mand[j]
\* expected list of groups of a part: mandatory ones, then the GROUP clauses in text order (OBJECT clauses name no group)
RECURSIVE GroupsOf(_, _)
GroupsOf(items, i) == IF i > Len(items) THEN <<>>
                      ELSE (IF items[i].k = "group" THEN <<items[i].r>> ELSE <<>>) \o GroupsOf(items, i + 1)
ExpectedGroups(p) == p.mand \o GroupsOf(p.items, 1)

Init == aspect = "-" /\ sc = <<>>
ChooseTable == \E t \in TableScenarios : TableLegal(t) /\ aspect' = "table" /\ sc' = t
ChooseList == \E l \in ListScenarios : ListLegal(l) /\ aspect' = "list" /\ sc' = l
ChooseCompliance1 == \E p \in Parts : PartLegal(p) /\ aspect' = "compliance" /\ sc' = <<p>>
ChooseCompliance2 == \E p \in Parts, q \in {x \in Parts : Len(x.items) <= 1 /\ Len(x.mand) <= 1} :
                        PartLegal(p) /\ PartLegal(q) /\ p.named # q.named /\ aspect' = "compliance" /\ sc' = <<p, q>>
Next == aspect = "-" /\ (ChooseTable \/ ChooseList \/ ChooseCompliance1 \/ ChooseCompliance2)
Spec == Init /\ [][Next]_vars
=============================================================================
