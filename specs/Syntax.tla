------------------------------- MODULE Syntax -------------------------------
(* C02 / C11 / C17: the abstract syntax of MIB files.  A scenario is a file   *)
(* of one or two modules built declaration by declaration; two independent    *)
(* projections of the same abstract value are defined here:                   *)
(*    Tokens(file) - the token sequence of the text                           *)
(*    Tree(file)   - what parse() must return                                 *)
(* and a layout: which filler (blank, TAB, LF, CRLF, CR, comment, blank line, *)
(* nothing) separates consecutive tokens, obtained by rotating a pattern so   *)
(* that every filler meets every kind of gap.  Numbers beyond TLC's integers  *)
(* are placeholders "@NAME" resolved by the harness; in trees every number is *)
(* <<"@num", spelling>>.  Python None is "@None".                             *)
EXTENDS Naturals, Integers, Sequences, FiniteSets, TLC

NoneV == "@None"
Q(s) == "\"" \o s \o "\""
Num(s) == <<"@num", s>>
RECURSIVE Flat(_)
Flat(ss) == IF ss = <<>> THEN <<>> ELSE Head(ss) \o Flat(Tail(ss))
Opt(b, s) == IF b THEN s ELSE <<>>
RECURSIVE Commas(_)
Commas(items) == IF Len(items) = 0 THEN <<>> ELSE IF Len(items) = 1 THEN items[1] ELSE items[1] \o <<",">> \o Commas(Tail(items))
Names(n) == SubSeq(<<"a-one", "bTwo", "c3">>, 1, n)
NameToks(n) == Commas([i \in 1..n |-> <<Names(n)[i]>>])
OidToks == <<"::=", "{", "iso", "3", "}">>
OidTree == <<"objectIdentifier", <<"iso", Num("3")>>>>
RefToks(b) == Opt(b, <<"REFERENCE", Q("r")>>)
RefTree(b) == IF b THEN <<"REFERENCE", "r">> ELSE NoneV

\* ------------------------------------------------------------------ declarations
\* a declaration is a record [k |-> kind, ...options]; DeclToks / DeclTree are its two projections
OidForm(f) == CASE f = 1 -> [t |-> <<"iso", "3">>, v |-> <<"iso", Num("3")>>]
                [] f = 2 -> [t |-> <<"1", "3", "sub", "(", "5", ")">>, v |-> <<Num("1"), Num("3"), <<"sub", Num("5")>>>>]
                [] f = 3 -> [t |-> <<"other-Node">>, v |-> <<"other-Node">>]
                [] f = 4 -> [t |-> <<"otherNode", "4", "8">>, v |-> <<"otherNode", Num("4"), Num("8")>>]

TypeVariants == {"range1", "range3", "r64", "neg64", "enum", "size", "bits", "app", "plain", "sequence", "choice"}
TypeRhs(v) ==
  CASE v = "range1" -> [t |-> <<"Integer32", "(", "-5", "..", "10", ")">>,
                        v |-> <<"SimpleSyntax", "Integer32", <<"integerSubType", <<<<Num("-5"), Num("10")>>>>>>>>]
    [] v = "range3" -> [t |-> <<"Integer32", "(", "-5", "..", "10", "|", "20", "|", "'FF'H", "..", "'0111'B", ")">>,
                        v |-> <<"SimpleSyntax", "Integer32", <<"integerSubType", <<<<Num("-5"), Num("10")>>, <<Num("20")>>, <<"'FF'H", "'0111'B">>>>>>>>]
    [] v = "r64" -> [t |-> <<"Integer32", "(", "0", "..", "@U64MAX", ")">>,
                     v |-> <<"SimpleSyntax", "Integer32", <<"integerSubType", <<<<Num("0"), Num("@U64MAX")>>>>>>>>]
    [] v = "neg64" -> [t |-> <<"Integer32", "(", "@I64MIN", "..", "-1", ")">>,
                       v |-> <<"SimpleSyntax", "Integer32", <<"integerSubType", <<<<Num("@I64MIN"), Num("-1")>>>>>>>>]
    [] v = "enum" -> [t |-> <<"INTEGER", "{", "one", "(", "1", ")", ",", "two", "(", "2", ")", "}">>,
                      v |-> <<"SimpleSyntax", "INTEGER", <<"enumSpec", <<<<"one", Num("1")>>, <<"two", Num("2")>>>>>>>>]
    [] v = "enumup" -> [t |-> <<"INTEGER", "{", "One", "(", "1", ")", ",", "two", "(", "2", ")", "}">>,      \* upper-case label: relaxed dialects only
                        v |-> <<"SimpleSyntax", "INTEGER", <<"enumSpec", <<<<"One", Num("1")>>, <<"two", Num("2")>>>>>>>>]
    [] v = "size" -> [t |-> <<"OCTET", "STRING", "(", "SIZE", "(", "0", "..", "8", "|", "16", ")", ")">>,
                      v |-> <<"SimpleSyntax", "OCTET STRING", <<"octetStringSubType", <<<<Num("0"), Num("8")>>, <<Num("16")>>>>>>>>]
    [] v = "bits" -> [t |-> <<"BITS", "{", "b0", "(", "0", ")", ",", "b1", "(", "1", ")", "}">>,
                      v |-> <<"BITS", <<<<"b0", Num("0")>>, <<"b1", Num("1")>>>>>>]
    [] v = "app" -> [t |-> <<"Counter64">>, v |-> <<"ApplicationSyntax", "Counter64">>]
    [] v = "plain" -> [t |-> <<"Other-Type">>, v |-> <<"row", "Other-Type">>]
    [] v = "sequence" -> [t |-> <<"SEQUENCE", "{", "c1", "Integer32", ",", "c2", "OCTET", "STRING", "}">>,
                          v |-> <<"SEQUENCE", <<<<"c1", "Integer32">>, <<"c2", "OCTET STRING">>>>>>]
    [] v = "choice" -> [t |-> <<"CHOICE", "@CHOICEBODY">>, v |-> NoneV]

DefvalVariants == {"none", "num", "neg", "str", "hex", "bits", "label"}
Defval(v) == CASE v = "none" -> [t |-> <<>>, v |-> NoneV]
               [] v = "num" -> [t |-> <<"DEFVAL", "{", "5", "}">>, v |-> <<"DEFVAL", Num("5")>>]
               [] v = "neg" -> [t |-> <<"DEFVAL", "{", "-5", "}">>, v |-> <<"DEFVAL", Num("-5")>>]
               [] v = "str" -> [t |-> <<"DEFVAL", "{", Q("s t"), "}">>, v |-> <<"DEFVAL", Q("s t")>>]
               [] v = "hex" -> [t |-> <<"DEFVAL", "{", "'0aFF'h", "}">>, v |-> <<"DEFVAL", "'0aFF'h">>]
               [] v = "bits" -> [t |-> <<"DEFVAL", "{", "{", "b0", ",", "b1", "}", "}">>, v |-> <<"DEFVAL", <<"BitNames", <<"b0", "b1">>>>>>]
               [] v = "label" -> [t |-> <<"DEFVAL", "{", "someLabel", "}">>, v |-> <<"DEFVAL", "someLabel">>]
RECURSIVE IdxToks(_, _)
IdxToks(n, i) == IF i > n THEN <<>> ELSE (IF i > 1 THEN <<",">> ELSE <<>>) \o (IF i = n /\ n > 1 THEN <<"IMPLIED">> ELSE <<>>) \o <<Names(n)[i]>> \o IdxToks(n, i + 1)
IdxTree(n) == [i \in 1..n |-> <<Num(IF i = n /\ n > 1 THEN "1" ELSE "0"), Names(n)[i]>>]
\* RFC 1212 style index by type (supportIndex dialects): INDEX { INTEGER, a-one }   -- encoded as idx = 9
TypeIdxToks == <<"INTEGER", ",", "a-one">>
TypeIdxTree == <<<<Num("0"), "INTEGER">>, <<Num("0"), "a-one">>>>
SynForms == {"INTEGER", "named", "size", "seqof"}
ObjSyntax(f) == CASE f = "INTEGER" -> [t |-> <<"INTEGER">>, v |-> <<"SimpleSyntax", "INTEGER">>]
                  [] f = "named" -> [t |-> <<"My-Type">>, v |-> <<"row", "My-Type">>]
                  [] f = "netaddr" -> [t |-> <<"NetworkAddress">>, v |-> <<"ApplicationSyntax", "NetworkAddress", NoneV>>]   \* SMIv1 keyword dialects
                  [] f = "size" -> [t |-> <<"OCTET", "STRING", "(", "SIZE", "(", "0", "..", "4", ")", ")">>,
                                    v |-> <<"SimpleSyntax", "OCTET STRING", <<"octetStringSubType", <<<<Num("0"), Num("4")>>>>>>>>]
                  [] f = "seqof" -> [t |-> <<"SEQUENCE", "OF", "MyEntry">>, v |-> <<"conceptualTable", <<"row", "MyEntry">>>>]

DeclToks(d) ==
  CASE d.k = "value" -> <<d.name, "OBJECT", "IDENTIFIER", "::=", "{">> \o OidForm(d.form).t \o <<"}">>
    [] d.k = "objectidentity" -> <<d.name, "OBJECT-IDENTITY", "STATUS", "current", "DESCRIPTION", Q("d")>> \o RefToks(d.ref) \o OidToks
    [] d.k = "notification" -> <<d.name, "NOTIFICATION-TYPE">> \o Opt(d.n > 0, <<"OBJECTS", "{">> \o NameToks(d.n) \o <<"}">>)
                               \o <<"STATUS", "current", "DESCRIPTION", Q("d")>> \o RefToks(d.ref) \o OidToks
    [] d.k = "moduleidentity" -> <<d.name, "MODULE-IDENTITY", "LAST-UPDATED", Q("200001010000Z"), "ORGANIZATION", Q("o"), "CONTACT-INFO", Q("c"),
                                   "DESCRIPTION", Q("multi word d")>>
                                 \o Flat([i \in 1..d.n |-> <<"REVISION", Q(IF i = 1 THEN "200001010000Z" ELSE "9901010000Z"), "DESCRIPTION", Q("r")>>]) \o OidToks
    [] d.k = "type" -> <<d.name, "::=">> \o TypeRhs(d.variant).t
    [] d.k = "tc" -> <<d.name, "::=", "TEXTUAL-CONVENTION">> \o Opt(d.hint, <<"DISPLAY-HINT", Q("1x:")>>) \o <<"STATUS", "current", "DESCRIPTION", Q("d")>>
                     \o RefToks(d.ref) \o <<"SYNTAX">> \o TypeRhs(d.variant).t
    [] d.k = "objecttype" -> <<d.name, "OBJECT-TYPE", "SYNTAX">> \o ObjSyntax(d.syn).t \o Opt(d.units, <<"UNITS", Q("u")>>)
                             \o <<d.acckw, "read-only", "STATUS", "current">> \o Opt(d.descr, <<"DESCRIPTION", Q("d")>>) \o RefToks(d.ref)
                             \o Opt(d.idx > 0, <<"INDEX", "{">> \o (IF d.idx = 9 THEN TypeIdxToks ELSE IdxToks(d.idx, 1)) \o <<"}">>) \o Opt(d.aug, <<"AUGMENTS", "{", "baseRow", "}">>)
                             \o Defval(d.defval).t \o OidToks
    [] d.k = "objectgroup" -> <<d.name, "OBJECT-GROUP", "OBJECTS", "{">> \o NameToks(d.n) \o <<"}", "STATUS", "current", "DESCRIPTION", Q("d")>> \o RefToks(d.ref) \o OidToks
    [] d.k = "notifgroup" -> <<d.name, "NOTIFICATION-GROUP", "NOTIFICATIONS", "{">> \o NameToks(d.n) \o <<"}", "STATUS", "current", "DESCRIPTION", Q("d")>> \o RefToks(d.ref) \o OidToks
    [] d.k = "trap" -> <<d.name, "TRAP-TYPE", "ENTERPRISE", "someNode">> \o Opt(d.n > 0, <<"VARIABLES", "{">> \o NameToks(d.n) \o <<"}">>)
                       \o Opt(d.descr, <<"DESCRIPTION", Q("d")>>) \o RefToks(d.ref) \o <<"::=", "7">>
    [] d.k = "capabilities" -> <<d.name, "AGENT-CAPABILITIES", "PRODUCT-RELEASE", Q("p"), "STATUS", "current", "DESCRIPTION", Q("d")>> \o RefToks(d.ref) \o OidToks
    [] d.k = "capsupports" -> <<d.name, "AGENT-CAPABILITIES", "PRODUCT-RELEASE", Q("p"), "STATUS", "current", "DESCRIPTION", Q("d"),
                                "SUPPORTS", "M-ONE", "INCLUDES", "{", "grpOne", "}", "VARIATION", "someObj", "CREATION-REQUIRES", "{", "a-one", "}",
                                "DESCRIPTION", Q("v")>> \o OidToks
    [] d.k = "macro" -> <<"OBJECT-TYPE", "MACRO", "@MACROBODY", "END">>

DeclTree(d) ==
  CASE d.k = "value" -> <<"valueDeclaration", d.name, <<"objectIdentifier", OidForm(d.form).v>>>>
    [] d.k = "objectidentity" -> <<"objectIdentityClause", d.name, <<"Status", "current">>, <<"DESCRIPTION", "d">>, RefTree(d.ref), OidTree>>
    [] d.k = "notification" -> <<"notificationTypeClause", d.name, IF d.n > 0 THEN <<"Objects", Names(d.n)>> ELSE <<>>, <<"Status", "current">>,
                                 <<"DESCRIPTION", "d">>, RefTree(d.ref), OidTree>>
    [] d.k = "moduleidentity" -> <<"moduleIdentityClause", d.name, <<"LAST-UPDATED", "200001010000Z">>, <<"ORGANIZATION", "o">>, <<"CONTACT-INFO", "c">>,
                                   <<"DESCRIPTION", "multi word d">>,
                                   IF d.n = 0 THEN NoneV ELSE <<"Revisions", [i \in 1..d.n |-> <<IF i = 1 THEN "200001010000Z" ELSE "9901010000Z", <<"DESCRIPTION", "r">>>>]>>,
                                   OidTree>>
    [] d.k = "type" -> <<"typeDeclaration", d.name, IF d.variant = "choice" THEN NoneV ELSE <<"typeDeclarationRHS", TypeRhs(d.variant).v>>>>
    [] d.k = "tc" -> <<"typeDeclaration", d.name, <<"typeDeclarationRHS", IF d.hint THEN <<"DISPLAY-HINT", "1x:">> ELSE NoneV, <<"Status", "current">>,
                        <<"DESCRIPTION", "d">>, RefTree(d.ref), TypeRhs(d.variant).v>>>>
    [] d.k = "objecttype" -> <<"objectTypeClause", d.name, ObjSyntax(d.syn).v, IF d.units THEN <<"UNITS", "u">> ELSE NoneV, <<"MaxAccessPart", "read-only">>,
                               <<"Status", "current">>, IF d.descr THEN <<"DESCRIPTION", "d">> ELSE NoneV, RefTree(d.ref),
                               IF d.aug THEN "baseRow" ELSE NoneV, IF d.idx > 0 THEN <<"INDEX", IF d.idx = 9 THEN TypeIdxTree ELSE IdxTree(d.idx)>> ELSE NoneV, Defval(d.defval).v, OidTree>>
    [] d.k = "objectgroup" -> <<"objectGroupClause", d.name, <<"Objects", Names(d.n)>>, <<"Status", "current">>, <<"DESCRIPTION", "d">>, RefTree(d.ref), OidTree>>
    [] d.k = "notifgroup" -> <<"notificationGroupClause", d.name, <<"Notifications", Names(d.n)>>, <<"Status", "current">>, <<"DESCRIPTION", "d">>, RefTree(d.ref), OidTree>>
    [] d.k = "trap" -> <<"trapTypeClause", d.name, <<"objectIdentifier", <<"someNode">>>>, IF d.n > 0 THEN <<"VarTypes", Names(d.n)>> ELSE <<>>,
                         IF d.descr THEN <<"DESCRIPTION", "d">> ELSE NoneV, RefTree(d.ref), Num("7")>>
    [] d.k = "capabilities" -> <<"agentCapabilitiesClause", d.name, <<"PRODUCT-RELEASE", "p">>, <<"Status", "current">>, <<"DESCRIPTION", "d">>, RefTree(d.ref), OidTree>>
    [] d.k = "capsupports" -> <<"agentCapabilitiesClause", d.name, <<"PRODUCT-RELEASE", "p">>, <<"Status", "current">>, <<"DESCRIPTION", "d">>, NoneV, OidTree>>
    [] d.k = "macro" -> NoneV

\* the shapes TLC explores (every optional part present and absent)
LName == {"lowName", "with-Hyphen9"}
UName == {"UpName", "Up-Name2", "CHOICEType", "MACRO-Names", "EXPORTSTable"}     \* identifiers that begin like a block keyword
Shapes ==
       {[k |-> "value", name |-> n, form |-> f] : n \in LName \cup {"UpperValue"}, f \in 1..4}
  \cup {[k |-> "objectidentity", name |-> n, ref |-> r] : n \in LName, r \in BOOLEAN}
  \cup {[k |-> "notification", name |-> n, n |-> c, ref |-> r] : n \in LName, c \in 0..3, r \in BOOLEAN}
  \cup {[k |-> "moduleidentity", name |-> "lowName", n |-> c] : c \in 0..2}
  \cup {[k |-> "type", name |-> n, variant |-> v] : n \in UName, v \in TypeVariants}
  \cup {[k |-> "tc", name |-> "UpName", variant |-> v, hint |-> h, ref |-> r] : v \in TypeVariants \ {"sequence", "choice", "plain"}, h \in BOOLEAN, r \in BOOLEAN}
  \* (UNITS, REFERENCE) and (DESCRIPTION, access keyword) are varied together to keep the product small: each part is still present and absent
  \cup {[k |-> "objecttype", name |-> "lowName", syn |-> s, units |-> u, acckw |-> IF ds THEN "MAX-ACCESS" ELSE "ACCESS", descr |-> ds, ref |-> ~u, idx |-> i, aug |-> FALSE, defval |-> dv] :
          s \in SynForms, u \in BOOLEAN, ds \in BOOLEAN, i \in 0..3, dv \in DefvalVariants}
  \cup {[k |-> "objecttype", name |-> "with-Hyphen9", syn |-> "named", units |-> FALSE, acckw |-> "MAX-ACCESS", descr |-> TRUE, ref |-> FALSE, idx |-> 0, aug |-> TRUE, defval |-> dv] :
          dv \in DefvalVariants}
  \cup {[k |-> g, name |-> "lowName", n |-> c, ref |-> r] : g \in {"objectgroup", "notifgroup"}, c \in 1..3, r \in BOOLEAN}
  \cup {[k |-> "trap", name |-> n, n |-> c, descr |-> ds, ref |-> r] : n \in LName, c \in 0..2, ds \in BOOLEAN, r \in BOOLEAN}
  \cup {[k |-> "capabilities", name |-> "lowName", ref |-> r] : r \in BOOLEAN}
  \cup {[k |-> "macro"]}

\* one representative per declaration kind (richest form), for files with several declarations and modules
Reps == {[k |-> "value", name |-> "UpperValue", form |-> 2],
         [k |-> "objectidentity", name |-> "lowName", ref |-> TRUE],
         [k |-> "notification", name |-> "with-Hyphen9", n |-> 2, ref |-> FALSE],
         [k |-> "notification", name |-> "lowName", n |-> 0, ref |-> TRUE],
         [k |-> "moduleidentity", name |-> "lowName", n |-> 2],
         [k |-> "type", name |-> "Up-Name2", variant |-> "range3"],
         [k |-> "type", name |-> "UpName", variant |-> "choice"],
         [k |-> "tc", name |-> "UpName", variant |-> "enum", hint |-> TRUE, ref |-> TRUE],
         [k |-> "objecttype", name |-> "lowName", syn |-> "seqof", units |-> TRUE, acckw |-> "MAX-ACCESS", descr |-> TRUE, ref |-> TRUE, idx |-> 2, aug |-> FALSE, defval |-> "bits"],
         [k |-> "objectgroup", name |-> "lowName", n |-> 3, ref |-> FALSE],
         [k |-> "trap", name |-> "with-Hyphen9", n |-> 2, descr |-> TRUE, ref |-> FALSE],
         [k |-> "capabilities", name |-> "lowName", ref |-> TRUE],
         [k |-> "macro"]}

\* ------------------------------------------------------------------ modules and files
\* module = [name, oid : BOOLEAN, exports : BOOLEAN, imports : 0..3 (shape id), decls : Seq(decl)]
ImportToks(i) == CASE i = 0 -> <<>>
                   [] i = 1 -> <<"IMPORTS", "a-one", "FROM", "M-ONE", ";">>
                   [] i = 2 -> <<"IMPORTS", "a-one", ",", "BTwo", "FROM", "M-ONE", "c3", "FROM", "M-TWO", ";">>
                   [] i = 3 -> <<"IMPORTS", "a-one", "FROM", "M-ONE", "OBJECT-TYPE", ",", "Counter64", "FROM", "SNMPv2-SMI", "c3", "FROM", "M-ONE", ";">>
\* the import part is a mapping module -> symbols (repeated FROM clauses of one module are merged, in order)
ImportTree(i) == CASE i = 0 -> NoneV
                   [] i = 1 -> <<<<"M-ONE", <<"a-one">>>>>>
                   [] i = 2 -> <<<<"M-ONE", <<"a-one", "BTwo">>>>, <<"M-TWO", <<"c3">>>>>>
                   [] i = 3 -> <<<<"M-ONE", <<"a-one", "c3">>>>, <<"SNMPv2-SMI", <<"OBJECT-TYPE", "Counter64">>>>>>
ModToks(m) == <<m.name>> \o Opt(m.oid, <<"{", "iso", "4", "}">>) \o <<"DEFINITIONS", "::=", "BEGIN">> \o Opt(m.exports, <<"EXPORTS", "@EXPORTSBODY">>)
              \o ImportToks(m.imports) \o Flat([i \in DOMAIN m.decls |-> DeclToks(m.decls[i])]) \o <<"END">>
ModTree(m) == <<m.name, IF m.oid THEN <<"objectIdentifier", <<"iso", Num("4")>>>> ELSE NoneV, ImportTree(m.imports),
                IF m.decls = <<>> THEN NoneV ELSE [i \in DOMAIN m.decls |-> DeclTree(m.decls[i])]>>
FileToks(f) == Flat([i \in DOMAIN f |-> ModToks(f[i])])
FileTree(f) == [i \in DOMAIN f |-> ModTree(f[i])]

\* ------------------------------------------------------------------ layout
Fillers == <<"SP", "TAB", "LF", "CRLF", "CR", "CMTLF", "CMTCRLF", "LFLF", "NONE">>
Punct == {"{", "}", "(", ")", ",", ";", "|", "..", "::="}
\* block bodies carry their own leading/trailing characters and numbers must not run into a following ".." (5..10 is fine, but a
\* filler "nothing" between an identifier and a number or two words would merge them)
CanAbut(a, b) == (a \in Punct \/ b \in Punct) /\ a \notin {"@MACROBODY", "@EXPORTSBODY", "@CHOICEBODY"} /\ b \notin {"@MACROBODY", "@EXPORTSBODY", "@CHOICEBODY"}
Bodies == {"@MACROBODY", "@EXPORTSBODY", "@CHOICEBODY"}
\* between a block keyword and its body the lexer is already inside the block: no comment filler there (triage class, see DESIGN)
FillAt(toks, i, offset) == LET c == Fillers[((i + offset) % 9) + 1] IN
   IF toks[i + 1] \in Bodies \/ toks[i] \in Bodies THEN "SP" ELSE IF c = "NONE" /\ ~CanAbut(toks[i], toks[i + 1]) THEN "SP" ELSE c
Fills(toks, offset) == [i \in 1..(Len(toks) - 1) |-> FillAt(toks, i, offset)]
NewLines(c) == CASE c \in {"LF", "CRLF", "CR", "CMTLF", "CMTCRLF"} -> 1 [] c = "LFLF" -> 2 [] OTHER -> 0

\* ------------------------------------------------------------------ scenario builder
CONSTANTS MaxDecls, MaxMods,
          ShapePool      \* the declaration shapes a run may add (all of Shapes, or one representative per kind for deeper files)
VARIABLES file, offset
vars == <<file, offset>>
EmptyMod(n, o, e, i) == [name |-> n, oid |-> o, exports |-> e, imports |-> i, decls |-> <<>>]
ModOptions == {<<FALSE, FALSE, 0>>, <<TRUE, FALSE, 1>>, <<FALSE, TRUE, 2>>, <<TRUE, TRUE, 3>>}
Init == /\ offset \in 0..8
        /\ \E x \in ModOptions : file = <<EmptyMod("FIRST-MIB", x[1], x[2], x[3])>>
RECURSIVE Total(_, _)
Total(f, i) == IF i > Len(f) THEN 0 ELSE Len(f[i].decls) + Total(f, i + 1)
AddDecl == /\ Len(file[Len(file)].decls) < MaxDecls /\ Total(file, 1) < MaxDecls
           /\ \E d \in ShapePool : file' = [file EXCEPT ![Len(file)].decls = Append(@, d)]
           /\ offset' = offset
AddModule == /\ Len(file) < MaxMods
             /\ \E i \in {0, 2} : file' = Append(file, EmptyMod("Second-Mib2", FALSE, FALSE, i))
             /\ offset' = offset
Next == AddDecl \/ AddModule
Spec == Init /\ [][Next]_vars
=============================================================================
