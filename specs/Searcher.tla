------------------------------ MODULE Searcher ------------------------------
(* The file searchers' "is an up-to-date transformed copy there?" answer      *)
(* (C10, second half): AnyFileSearcher, PyFileSearcher (also reached through  *)
(* PyPackageSearcher for a package directory) and StubSearcher.               *)
(* A configuration is a directory as far as the module name M is concerned:   *)
(* one entry per suffix the searcher knows, each absent, a directory, or a    *)
(* file with a time stamp around the source's (src-1, src, src+1); for a      *)
(* sibling .pyc the recorded time is the source mtime in its header (PEP 552).*)
EXTENDS Naturals, TLC

CONSTANTS Dev_PrePep552Header,   \* named deviation: header read with the pre-3.7 layout (flags word taken for the mtime)
          Dev_StalePycHides      \* named deviation: a stale .pyc answers "not found" without looking at the .py

VARIABLES cfg, answer
vars == <<cfg, answer>>

Src == 1                                  \* source modification time; entries use 0, 1, 2
Absent == [k |-> "absent", t |-> 0, magic |-> TRUE, hash |-> FALSE]
Dir    == [k |-> "dir", t |-> 0, magic |-> TRUE, hash |-> FALSE]
File(t) == [k |-> "file", t |-> t, magic |-> TRUE, hash |-> FALSE]
Plain  == {Absent, Dir} \cup {File(t) : t \in 0..2}
Pyc    == {Absent, Dir} \cup {[k |-> "file", t |-> t, magic |-> m, hash |-> h] : t \in 0..2, m \in BOOLEAN, h \in BOOLEAN}

\* kind "any": e1, e2 = name + first / second configured suffix;  kind "py": e1 = M.py, pyc = sibling M.pyc
\* born: the searcher object is created "after" the directory has its contents, or "before" the directory even
\*       exists (it is created and filled later, e.g. by the writer of an earlier compile() call).  Searchers keep
\*       no state: the answer depends on the directory at the time of the question only - Algo ignores `born`.
Configs ==
       [kind : {"any"}, rebuild : BOOLEAN, inlist : {FALSE}, e1 : Plain, e2 : Plain, pyc : {Absent}, born : {"after", "before"}]
  \cup [kind : {"py"}, rebuild : BOOLEAN, inlist : {FALSE}, e1 : Plain, e2 : {Absent}, pyc : Pyc, born : {"after", "before"}]
  \cup [kind : {"pypkg"}, rebuild : BOOLEAN, inlist : {FALSE}, e1 : Plain, e2 : {Absent}, pyc : Pyc, born : {"after"}]
  \cup [kind : {"stub"}, rebuild : BOOLEAN, inlist : BOOLEAN, e1 : {Absent}, e2 : {Absent}, pyc : {Absent}, born : {"after"}]

FreshPlain(e) == e.k = "file" /\ e.t >= Src
\* the source time recorded in a .pyc: none for bad magic or hash-based files
PycRecorded(e) == IF Dev_PrePep552Header THEN 0 ELSE e.t
PycUsable(e) == e.k = "file" /\ e.magic /\ (Dev_PrePep552Header \/ ~e.hash)

\* the algorithm, shaped like the code (suffix loops with early exits)
Algo(c) ==
  IF c.kind = "stub" THEN (IF c.inlist THEN "notmodified" ELSE "notfound")
  ELSE IF c.rebuild THEN "silent"
  ELSE IF c.kind = "any"
       THEN IF FreshPlain(c.e1) \/ FreshPlain(c.e2) THEN "notmodified" ELSE "notfound"
       ELSE IF PycUsable(c.pyc) /\ PycRecorded(c.pyc) >= Src THEN "notmodified"
            ELSE IF PycUsable(c.pyc) /\ Dev_StalePycHides THEN "notfound"
            ELSE IF FreshPlain(c.e1) THEN "notmodified" ELSE "notfound"

Init == cfg \in Configs /\ answer = "-"
Ask == answer = "-" /\ answer' = Algo(cfg) /\ cfg' = cfg
Next == Ask
Spec == Init /\ [][Next]_vars

\* ---- property (C10): "up to date" exactly when a transformed FILE named M + a suffix of that searcher exists
\*      whose recorded time is not older than the source's; rebuild overrides age checks but not stub lists
Recorded(c) == {c.e1.t : x \in {1} \cap (IF c.e1.k = "file" THEN {1} ELSE {})}
        \cup {c.e2.t : x \in {1} \cap (IF c.e2.k = "file" THEN {1} ELSE {})}
        \cup {c.pyc.t : x \in {1} \cap (IF c.pyc.k = "file" /\ c.pyc.magic /\ ~c.pyc.hash THEN {1} ELSE {})}
UpToDateExactly(c, a) ==
  (a = "notmodified") <=> IF c.kind = "stub" THEN c.inlist
                          ELSE ~c.rebuild /\ \E t \in Recorded(c) : t >= Src
OnlyKnownAnswers(c, a) == a \in {"notmodified", "notfound", "silent"} /\ (a = "silent" => (c.rebuild /\ c.kind # "stub"))
P_UpToDateExactly == answer # "-" => UpToDateExactly(cfg, answer)
P_OnlyKnownAnswers == answer # "-" => OnlyKnownAnswers(cfg, answer)
=============================================================================
