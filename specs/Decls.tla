------------------------------- MODULE Decls -------------------------------
(* C03: one module as a list of declarations of all eleven clause kinds, each *)
(* with its status / access / units / revision attributes, in any order.      *)
(* ExpectedDoc says what the JSON document must hold for each declaration;    *)
(* it is written from the SMI reading of the clause, not from the code.       *)
EXTENDS Naturals, Sequences, FiniteSets, TLC

CONSTANTS MaxDecls, Kinds, Statuses, Accesses, RevLists

AllKinds == {"value", "objectidentity", "scalar", "table", "row", "column", "moduleidentity", "notification", "trap",
             "objectgroup", "notifgroup", "compliance", "capabilities", "type", "tc"}
NoStatus == {"value", "type", "trap", "moduleidentity"}      \* clauses without a STATUS part
VARIABLES decls     \* sequence (= text order) of [id, kind, status, access, units, revs, parent]
vars == <<decls>>
Ids == {decls[i].id : i \in DOMAIN decls}
ById(x) == CHOOSE i \in DOMAIN decls : decls[i].id = x
KindOf(x) == decls[ById(x)].kind
Has(k) == \E i \in DOMAIN decls : decls[i].kind = k
InsertAt(s, pos, x) == SubSeq(s, 1, pos - 1) \o <<x>> \o SubSeq(s, pos, Len(s))

Init == decls = <<>>
Add(k, st, ac, un, rv, par, pos) ==
  /\ Len(decls) < MaxDecls /\ pos \in 1..(Len(decls) + 1)
  /\ (k = "moduleidentity") => ~Has("moduleidentity")
  /\ (k # "moduleidentity") => rv = <<>>
  /\ (k \notin {"scalar", "column"}) => ~un
  /\ (k \in {"scalar", "column"}) => ac \in Accesses
  /\ (k \notin {"scalar", "column"}) => ac = "-"
  /\ (k \in NoStatus) => st = "-"
  /\ (k \notin NoStatus) => st \in Statuses
  /\ (k = "row") => (par \in Ids /\ KindOf(par) = "table" /\ ~\E i \in DOMAIN decls : decls[i].parent = par)
  /\ (k = "column") => (par \in Ids /\ KindOf(par) = "row")
  /\ (k \notin {"row", "column"}) => par = 0
  /\ (k = "objectgroup") => (Has("scalar") \/ Has("column"))
  /\ (k = "notifgroup") => Has("notification")
  /\ decls' = InsertAt(decls, pos, [id |-> Len(decls) + 1, kind |-> k, status |-> st, access |-> ac, units |-> un, revs |-> rv, parent |-> par])
Next == \E k \in Kinds, st \in Statuses \cup {"-"}, ac \in Accesses \cup {"-"}, un \in BOOLEAN, rv \in RevLists, par \in 0..MaxDecls, pos \in 1..MaxDecls :
          Add(k, st, ac, un, rv, par, pos)
Spec == Init /\ [][Next]_vars
Legal == /\ \A i \in DOMAIN decls : decls[i].kind = "table" => \E j \in DOMAIN decls : decls[j].parent = decls[i].id
         /\ \A i \in DOMAIN decls : decls[i].kind = "row" => \E j \in DOMAIN decls : decls[j].parent = decls[i].id

\* ---- what the document must say
ClassOf(k) == CASE k \in {"value", "objectidentity"} -> "objectidentity"
                [] k \in {"scalar", "table", "row", "column"} -> "objecttype"
                [] k = "moduleidentity" -> "moduleidentity"
                [] k \in {"notification", "trap"} -> "notificationtype"
                [] k = "objectgroup" -> "objectgroup"
                [] k = "notifgroup" -> "notificationgroup"
                [] k = "compliance" -> "modulecompliance"
                [] k = "capabilities" -> "agentcapabilities"
                [] k = "type" -> "type"
                [] k = "tc" -> "textualconvention"
NodeTypeOf(k) == IF k \in {"scalar", "table", "row", "column"} THEN k ELSE "-"
\* conceptual tables and rows are always rendered MAX-ACCESS not-accessible
Expected(d) == [cls |-> ClassOf(d.kind), nodetype |-> NodeTypeOf(d.kind), status |-> d.status,
                access |-> IF d.kind \in {"table", "row"} THEN "not-accessible" ELSE d.access,
                units |-> d.units, revs |-> d.revs]
=============================================================================
