---- MODULE TypesTrace ----
(* C05 monitor: observed syntax / constraints / defaults (JSON and executed pysnmp classes) against the scenario. *)
EXTENDS Types, Json, IOUtils, TLCExt
VARIABLE tid
Traces == JsonDeserialize(IOEnv.TRACE_FILE)
T == Traces[tid]
TInit == tid \in 1..Len(Traces) /\ aspect = T.aspect /\ sc = T.sc
TNext == FALSE /\ UNCHANGED <<vars, tid>>
O == T.obs
Compiled == O.status = "compiled"
J == O.json
P == O.py
\* --- chain: parent type name as written, base class through the chain, defval formatted for the resolved base type
ExpParentJ == IF Len(sc.chain) = 0 THEN WrittenName(sc.base) ELSE "T" \o ToString(Len(sc.chain))
ExpParentP == IF Len(sc.chain) = 0 THEN ClassOf(sc.base) ELSE "T" \o ToString(Len(sc.chain))
SyntaxParent == (Compiled /\ aspect = "chain") => (J.parent = ExpParentJ /\ (T.pysnmp => P.parent = ExpParentP))
ChainLinks == (Compiled /\ aspect = "chain") => \A k \in DOMAIN sc.chain :
   (~sc.chain[k].imported) => (J.links[k].parent = (IF k = 1 THEN WrittenName(sc.base) ELSE "T" \o ToString(k - 1))
                               /\ J.links[k].cls = (IF sc.chain[k].form = "tc" THEN "textualconvention" ELSE "type"))
ChainDefval == (Compiled /\ aspect = "chain" /\ sc.defval) => (J.defbase = BaseOf(sc.base) /\ J.defpresent)
\* --- ranges / sizes: every alternative, in order, denoting the written integers
ExpAlts == [i \in DOMAIN sc.alts |-> <<Denote(sc.alts[i].lo), Denote(sc.alts[i].hi)>>]
AltsOf(x) == [i \in DOMAIN x |-> <<x[i][1], x[i][2]>>]
SyntaxExact == (Compiled /\ aspect \in {"range", "size"}) => (AltsOf(J.alts) = ExpAlts /\ J.parent = WrittenName(sc.base) /\ (T.pysnmp => (AltsOf(P.alts) = ExpAlts /\ P.parent = ClassOf(sc.base))))
\* --- enumerations / BITS: label -> value pairs, whatever the order of writing
Labels == <<"one", "two", "three">>
ExpNamed == {<<Labels[sc.perm[i]], sc.perm[i] + (IF sc.kind = "bits" THEN 0 ELSE 10)>> : i \in 1..sc.n}
PairSet(x) == {<<x[i][1], x[i][2]>> : i \in DOMAIN x}
NamedExact == (Compiled /\ aspect = "named") => (PairSet(J.named) = ExpNamed /\ (T.pysnmp => PairSet(P.named) = ExpNamed))
\* --- DEFVAL
DefvalFaithful == (Compiled /\ aspect = "defval") =>
   LET x == ExpDefval(sc.notation, sc.base) IN
   /\ J.defpresent /\ J.defbase = BaseOf(sc.base) /\ J.deffmt = x.fmt /\ J.defden = x.den
   /\ T.pysnmp => P.defden = x.den
Checks == << <<"Compiles", Compiled>>, <<"SyntaxParent", SyntaxParent>>, <<"ChainLinks", ChainLinks>>, <<"ChainDefval", ChainDefval>>,
             <<"SyntaxExact", SyntaxExact>>, <<"NamedExact", NamedExact>>, <<"DefvalFaithful", DefvalFaithful>> >>
Report == PrintT(ToJson([id |-> T.id, failed |-> {Checks[i][1] : i \in {j \in DOMAIN Checks : ~Checks[j][2]}}]))
====
