------------------------------- MODULE Types -------------------------------
(* C05: SYNTAX clauses, constraints and DEFVALs.  Three aspects:             *)
(*  chain       a base type, 0-3 derived types (plain assignment or TEXTUAL-  *)
(*              CONVENTION, here or in an imported module) declared in any    *)
(*              order, an object of the last type with a DEFVAL               *)
(*  constraint  range / SIZE alternatives (1-3, literals decimal, negative,   *)
(*              64-bit, hex, binary), enumerations and BITS in any order      *)
(*  defval      every DEFVAL notation against every base class                *)
(* Numbers never enter TLC as integers beyond small ones: a literal is        *)
(* [v |-> ValueId, f |-> form] and Denote(l) = l.v - two spellings of one id  *)
(* must come out as the same integer.                                         *)
EXTENDS Naturals, Sequences, FiniteSets, TLC

VARIABLES aspect, sc
vars == <<aspect, sc>>

\* ---- SMI base types and the class the code generators must resolve them to
Bases == {"INTEGER", "Integer32", "Unsigned32", "Gauge32", "Counter64", "TimeTicks", "IpAddress", "Opaque", "OCTET STRING",
          "OBJECT IDENTIFIER", "BITS", "ENUM"}
ClassOf(b) == CASE b \in {"INTEGER", "Integer32", "ENUM"} -> "Integer32"
                [] b = "OCTET STRING" -> "OctetString"
                [] b = "OBJECT IDENTIFIER" -> "ObjectIdentifier"
                [] b = "BITS" -> "Bits"
                [] OTHER -> b                       \* application types keep their name
\* the JSON document names the parent type as the MIB wrote it (INTEGER, OCTET STRING, ...); BITS is called Bits
WrittenName(b) == CASE b = "ENUM" -> "INTEGER" [] b = "BITS" -> "Bits" [] OTHER -> b
\* the base type a DEFVAL is formatted for: application types resolve through SNMPv2-SMI
BaseOf(b) == CASE b \in {"INTEGER", "Integer32", "ENUM", "Unsigned32", "Gauge32", "Counter64", "TimeTicks"} -> "Integer32"
               [] b \in {"OCTET STRING", "IpAddress", "Opaque"} -> "OctetString"
               [] b = "OBJECT IDENTIFIER" -> "ObjectIdentifier"
               [] b = "BITS" -> "Bits"
IntLike(b) == BaseOf(b) = "Integer32"
OctLike(b) == BaseOf(b) = "OctetString"

\* ---- chain aspect
Link(f, r, i) == [form |-> f, refine |-> r, imported |-> i]
Links == {Link(f, r, i) : f \in {"assign", "tc"}, r \in BOOLEAN, i \in BOOLEAN}
Chains == UNION {[1..n -> Links] : n \in 0..3}
\* a type can only be imported if everything below it is imported too (the imported module is self-contained)
ChainLegal(c) == \A k \in DOMAIN c : c[k].imported => \A j \in 1..k : c[j].imported
ChainBases == {"Integer32", "OCTET STRING", "ENUM", "BITS", "Unsigned32", "OBJECT IDENTIFIER"}
\* the syntax name the object's JSON entry must show: the last type of the chain, or the base class
\* (names of derived types are T1..T3 by position in the chain)
ParentName(b, c) == IF Len(c) = 0 THEN ClassOf(b) ELSE <<"T", Len(c)>>

\* ---- constraint aspect
ValueIds == {"I32MIN", "M1", "Z", "P1", "P255", "I32MAX", "U32MAX", "U32MAX1", "I64MIN", "U64MAX"}
NonNeg == ValueIds \ {"I32MIN", "M1", "I64MIN"}
Lit(v, f) == [v |-> v, f |-> f]
Lits == {Lit(v, "dec") : v \in ValueIds} \cup {Lit(v, f) : v \in NonNeg, f \in {"hex", "bin"}}
Denote(l) == l.v
Rng(lo, hi) == [lo |-> lo, hi |-> hi]          \* hi = lo for a single value

\* ---- defval aspect: notation x base class -> what must come out (format, denotation)
Notations == {"dec", "neg", "hex", "bin", "str", "emptystr", "enum", "bits0", "bits1", "bits2", "oidlocal", "oidimported"}
Applicable(n, b) ==
   CASE n \in {"dec", "neg"} -> IntLike(b) /\ b # "ENUM"
     [] n \in {"hex", "bin"} -> (IntLike(b) /\ b # "ENUM") \/ (OctLike(b) /\ b # "IpAddress")   \* the two-octet literal is no IP address
     [] n \in {"str", "emptystr"} -> b = "OCTET STRING"
     [] n = "enum" -> b = "ENUM"
     [] n \in {"bits0", "bits1", "bits2"} -> b = "BITS"
     [] n \in {"oidlocal", "oidimported"} -> b = "OBJECT IDENTIFIER"
\* expected (format, value denotation) - denotations are symbolic, resolved by the harness tables
ExpDefval(n, b) ==
   CASE n = "dec" -> [fmt |-> "decimal", den |-> "P255"]
     [] n = "neg" -> [fmt |-> "decimal", den |-> "M1"]
     [] n = "hex" -> IF IntLike(b) THEN [fmt |-> "hex", den |-> "P255"] ELSE [fmt |-> "hex", den |-> "octets:00ff"]
     [] n = "bin" -> IF IntLike(b) THEN [fmt |-> "bin", den |-> "P255"] ELSE [fmt |-> "hex", den |-> "octets:00ff"]
     [] n = "str" -> [fmt |-> "string", den |-> "text:abc"]
     [] n = "emptystr" -> [fmt |-> "string", den |-> "text:"]
     [] n = "enum" -> [fmt |-> "enum", den |-> "label:two"]
     [] n = "bits0" -> [fmt |-> "bits", den |-> "bits:"]
     [] n = "bits1" -> [fmt |-> "bits", den |-> "bits:b1"]
     [] n = "bits2" -> [fmt |-> "bits", den |-> "bits:b0,b2"]
     [] n = "oidlocal" -> [fmt |-> "oid", den |-> "oid:local"]
     [] n = "oidimported" -> [fmt |-> "oid", den |-> "oid:enterprises"]

Init == aspect = "-" /\ sc = <<>>
\* decoy: the importing module also declares an UNRELATED type that has the same name as a type deep inside the imported
\* chain (names are module-scoped); legal only when that inner type is not itself imported by name
DecoyLegal(c, d) == d => (Len(c) >= 2 /\ c[2].imported)
ChooseChain == \E b \in ChainBases, c \in Chains, od \in 1..6, dv \in BOOLEAN, dc \in BOOLEAN :
                  ChainLegal(c) /\ DecoyLegal(c, dc) /\ aspect' = "chain" /\ sc' = [base |-> b, chain |-> c, order |-> od, defval |-> dv, decoy |-> dc]
ChooseRange == \E b \in {"Integer32", "INTEGER", "Unsigned32", "Counter64"} : \E r1 \in {Rng(l, h) : l \in Lits, h \in Lits} :
                  \E more \in {<<>>, <<Rng(Lit("P255", "dec"), Lit("P255", "dec"))>>, <<Rng(Lit("Z", "hex"), Lit("P1", "bin")), Rng(Lit("U32MAX", "dec"), Lit("U32MAX", "dec"))>>} :
                  aspect' = "range" /\ sc' = [base |-> b, alts |-> <<r1>> \o more]
ChooseSize == \E b \in {"OCTET STRING", "Opaque"} : \E r1 \in {Rng(l, h) : l \in {x \in Lits : x.v \in {"Z", "P1", "P255"}}, h \in {x \in Lits : x.v \in {"P1", "P255"}}} :
                  \E more \in {<<>>, <<Rng(Lit("P255", "hex"), Lit("P255", "hex"))>>} :
                  aspect' = "size" /\ sc' = [base |-> b, alts |-> <<r1>> \o more]
Perms3 == {<<1, 2, 3>>, <<1, 3, 2>>, <<2, 1, 3>>, <<2, 3, 1>>, <<3, 1, 2>>, <<3, 2, 1>>}
ChooseNamed == \E k \in {"enum", "bits"}, n \in 1..3, p \in Perms3, inline \in BOOLEAN :
                  aspect' = "named" /\ sc' = [kind |-> k, n |-> n, perm |-> p, inline |-> inline]
ChooseDefval == \E n \in Notations, b \in Bases, lvl \in 0..2 :
                  Applicable(n, b) /\ aspect' = "defval" /\ sc' = [notation |-> n, base |-> b, depth |-> lvl]
Next == aspect = "-" /\ (ChooseChain \/ ChooseRange \/ ChooseSize \/ ChooseNamed \/ ChooseDefval)
Spec == Init /\ [][Next]_vars
=============================================================================
