------------------------------ MODULE OidIndex ------------------------------
(* The OID -> module index of JsonCodeGen.genIndex / MibCompiler.buildIndex   *)
(* (C18).  OIDs are sequences of arcs; the arc alphabet contains numbers      *)
(* whose decimal spellings share digits (4, 48) so that string-prefix and     *)
(* component-wise prefix differ.  One action = one genIndex() call with a     *)
(* batch of per-module summaries merged on top of the previous index.        *)
EXTENDS Naturals, Sequences, FiniteSets, TLC

CONSTANTS Mods,          \* module names
          Oids,          \* universe of OIDs (set of sequences of naturals)
          Recs,          \* set of summaries a module may report: [identity, enterprise, compliance, oids]
          MaxBuilds, MaxBatch,
          Dev_StringPrefix   \* named deviation: compaction by decimal string prefix (FALSE = intended)

VARIABLES idx,           \* [identity, enterprise, compliance, oids : OID -> SUBSET Mods]
          defs,          \* what each module has ever reported: [identity, enterprise, compliance, oids : SUBSET Oids]
          nbuilds, hist, prev
vars == <<idx, defs, nbuilds, hist, prev>>

None == <<>>                       \* "no identity / enterprise OID"
IsPfx(p, o) == Len(p) <= Len(o) /\ SubSeq(o, 1, Len(p)) = p
\* decimal spelling of a is a proper string prefix of that of b (arcs used in the models: 1, 4, 48, 481)
DigitPfx(a, b) == <<a, b>> \in {<<4, 48>>, <<4, 481>>, <<48, 481>>}
StrPfx(p, o) == \/ IsPfx(p, o)
                \/ /\ Len(p) <= Len(o) /\ Len(p) > 0
                   /\ SubSeq(o, 1, Len(p) - 1) = SubSeq(p, 1, Len(p) - 1)
                   /\ DigitPfx(p[Len(p)], o[Len(p)])
Covers(p, o) == IF Dev_StringPrefix THEN StrPfx(p, o) ELSE IsPfx(p, o)

Empty == [o \in {} |-> {}]
EmptyIdx == [identity |-> Empty, enterprise |-> Empty, compliance |-> Empty, oids |-> Empty]
Add(f, o, m) == [x \in DOMAIN f \cup {o} |-> IF x = o THEN (IF o \in DOMAIN f THEN f[o] ELSE {}) \cup {m} ELSE f[x]]
RECURSIVE AddAll(_, _, _)
AddAll(f, os, m) == IF os = {} THEN f ELSE LET o == CHOOSE o \in os : TRUE IN AddAll(Add(f, o, m), os \ {o}, m)

\* depth-first compaction: keep o unless an already kept prefix p names a superset of o's modules
RECURSIVE Compact(_, _, _)
Compact(todo, m, kept) ==
  IF todo = {} THEN kept
  ELSE LET d == CHOOSE d \in {Len(o) : o \in todo} : \A o \in todo : d <= Len(o)
           layer == {o \in todo : Len(o) = d}
           keepL == {o \in layer : ~\E p \in DOMAIN kept : Covers(p, o) /\ m[o] \subseteq kept[p]}
           kept2 == [o \in (DOMAIN kept) \cup keepL |-> IF o \in DOMAIN kept THEN kept[o] ELSE m[o]]
       IN Compact(todo \ layer, m, kept2)

MergeOne(i, mod, r) ==
  LET o1 == AddAll(i.oids, r.oids, mod) IN
  [identity   |-> IF r.identity = None THEN i.identity ELSE Add(i.identity, r.identity, mod),
   enterprise |-> IF r.enterprise = None THEN i.enterprise ELSE Add(i.enterprise, r.enterprise, mod),
   compliance |-> AddAll(i.compliance, r.compliance, mod),
   oids       |-> IF DOMAIN o1 = {} THEN o1 ELSE Compact(DOMAIN o1, o1, Empty)]
RECURSIVE MergeBatch(_, _, _)
MergeBatch(i, batch, k) == IF k > Len(batch) THEN i ELSE MergeBatch(MergeOne(i, batch[k].mod, batch[k].rec), batch, k + 1)

EmptyDefs == [m \in Mods |-> [identity |-> {}, enterprise |-> {}, compliance |-> {}, oids |-> {}]]
RECURSIVE DefsBatch(_, _, _)
DefsBatch(d, batch, k) ==
  IF k > Len(batch) THEN d
  ELSE LET b == batch[k] IN
       DefsBatch([d EXCEPT ![b.mod] = [identity   |-> @.identity \cup (IF b.rec.identity = None THEN {} ELSE {b.rec.identity}),
                                       enterprise |-> @.enterprise \cup (IF b.rec.enterprise = None THEN {} ELSE {b.rec.enterprise}),
                                       compliance |-> @.compliance \cup b.rec.compliance,
                                       oids       |-> @.oids \cup b.rec.oids]], batch, k + 1)

Init == idx = EmptyIdx /\ defs = EmptyDefs /\ nbuilds = 0 /\ hist = <<>> /\ prev = EmptyIdx

Build(batch) ==
  /\ nbuilds < MaxBuilds
  /\ prev' = idx
  /\ idx' = MergeBatch(idx, batch, 1)
  /\ defs' = DefsBatch(defs, batch, 1)
  /\ nbuilds' = nbuilds + 1
  /\ hist' = Append(hist, batch)

Batches == UNION {[1..n -> [mod : Mods, rec : Recs]] : n \in 1..MaxBatch}
Next == \E b \in Batches : Build(b)
Spec == Init /\ [][Next]_vars

\* ------------------------------------------------------------ properties (C18)
Listed(i, d) == \A m \in Mods :
   /\ \A o \in d[m].identity : o \in DOMAIN i.identity /\ m \in i.identity[o]
   /\ \A o \in d[m].enterprise : o \in DOMAIN i.enterprise /\ m \in i.enterprise[o]
   /\ \A o \in d[m].compliance : o \in DOMAIN i.compliance /\ m \in i.compliance[o]
Cover(i, d) == \A m \in Mods : \A o \in d[m].oids : \E p \in DOMAIN i.oids : IsPfx(p, o) /\ m \in i.oids[p]
OnlyDefines(i, d) == \A p \in DOMAIN i.oids : \A m \in i.oids[p] : p \in d[m].oids
\* what an index provides: section entries and the (module, oid) pairs it covers over the universe
Provides(i) == {<<"identity", o, m>> : o \in DOMAIN i.identity, m \in Mods} \cap {<<"identity", o, m>> : o \in Oids, m \in Mods}
SecPairs(f) == UNION {{<<o, m>> : m \in f[o]} : o \in DOMAIN f}
CoverPairs(f) == {<<o, m>> \in Oids \X Mods : \E p \in DOMAIN f : IsPfx(p, o) /\ m \in f[p]}
Monotone(old, new) ==
   /\ SecPairs(old.identity) \subseteq SecPairs(new.identity)
   /\ SecPairs(old.enterprise) \subseteq SecPairs(new.enterprise)
   /\ SecPairs(old.compliance) \subseteq SecPairs(new.compliance)
   /\ CoverPairs(old.oids) \subseteq CoverPairs(new.oids)
\* Reading (DESIGN.md section 6, C18): "changes nothing" = nothing the index PROVIDES changes - the identity,
\* enterprise and compliance sections and the cover relation of `oids`.  The literal text of `oids` may
\* change: the code compacts entry-wise, so re-adding A to an entry kept for B (1.4.1:[B] under 1.4:[A])
\* turns it into 1.4.1:[A,B]; that is cover-equivalent.
SameProvided(i, j) ==
   /\ i.identity = j.identity /\ i.enterprise = j.enterprise /\ i.compliance = j.compliance
   /\ CoverPairs(i.oids) = CoverPairs(j.oids)
Idempotent(i, batch) == SameProvided(MergeBatch(i, batch, 1), i)

P_Listed == Listed(idx, defs)
P_Cover == Cover(idx, defs)
P_OnlyDefines == OnlyDefines(idx, defs)
P_Monotone == Monotone(prev, idx)
P_Idempotent == hist # <<>> => Idempotent(idx, hist[Len(hist)])
=============================================================================
