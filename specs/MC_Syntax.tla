---- MODULE MC_Syntax ----
EXTENDS Syntax, Json
\* line (1-based) on which each token starts, from the fillers before it
RECURSIVE LineNos(_, _, _)
LineNos(fl, i, cur) == IF i > Len(fl) + 1 THEN <<>> ELSE <<cur>> \o LineNos(fl, i + 1, IF i <= Len(fl) THEN cur + NewLines(fl[i]) ELSE cur)
Export == LET toks == FileToks(file) fl == Fills(toks, offset) IN
          (Len(file[Len(file)].decls) >= 1 \/ Len(file) > 1) =>
             PrintT(ToJson([file |-> file, offset |-> offset, toks |-> toks, fills |-> fl, tree |-> FileTree(file), lines |-> LineNos(fl, 1, 1),
                            nmods |-> Len(file), kinds |-> [m \in DOMAIN file |-> [i \in DOMAIN file[m].decls |-> file[m].decls[i].k]]]))
====
