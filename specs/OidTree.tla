------------------------------ MODULE OidTree ------------------------------
(* C01: sets of MIB modules as forests of OID-carrying declarations.          *)
(* A scenario is grown declaration by declaration (AddNode): which module,    *)
(* which parent (a numeric root in one of its spellings, the imported base    *)
(* node `enterprises`, or any earlier node of any module - IMPORTS follow),   *)
(* which sub-identifier spelling, which declaration kind, and WHERE in the    *)
(* module text the declaration is inserted (forward references).              *)
(* GT(n) is the ground truth: the OID obtained by following parent references *)
(* down to a numeric root.  It is computed here, from the scenario only.      *)
EXTENDS Naturals, Sequences, FiniteSets, TLC

CONSTANTS NMods, MaxNodes,
          Kinds,        \* subset of AllKinds
          ArcForms,     \* set of arc sequences  Seq([lab : BOOLEAN, n : Nat])
          Roots         \* subset of {"iso", "num", "isonum", "base"}

AllKinds == {"value", "objectidentity", "scalar", "notification", "moduleidentity", "objectgroup", "notifgroup",
             "compliance", "capabilities", "trap", "table", "row", "column"}

VARIABLES nodes,   \* sequence of [mod, root, parent, arcs, kind]; parent = 0 when rooted
          decl     \* decl[m] = declaration order of module m (sequence of node ids)
vars == <<nodes, decl>>

Base == <<1, 3, 6, 1, 4, 1>>            \* SNMPv2-SMI::enterprises
Nums(arcs) == [i \in DOMAIN arcs |-> arcs[i].n]
RootOid(r) == IF r = "base" THEN Base ELSE <<1>>

RECURSIVE GT(_)
GT(i) == LET nd == nodes[i]
             up == IF nd.parent = 0 THEN RootOid(nd.root) ELSE GT(nd.parent)
         IN IF nd.kind = "trap" THEN up \o <<0>> \o Nums(nd.arcs) ELSE up \o Nums(nd.arcs)

InsertAt(s, pos, x) == SubSeq(s, 1, pos - 1) \o <<x>> \o SubSeq(s, pos, Len(s))
ModNodes(m) == {i \in DOMAIN nodes : nodes[i].mod = m}
Has(m, k) == \E i \in ModNodes(m) : nodes[i].kind = k

Init == nodes = <<>> /\ decl = [m \in 1..NMods |-> <<>>]

AddNode(m, r, p, arcs, k, pos) ==
  /\ Len(nodes) < MaxNodes
  /\ pos \in 1..(Len(decl[m]) + 1)
  \* legality of the generated SMI
  /\ (k = "moduleidentity") => ~Has(m, "moduleidentity")
  /\ (k = "objectgroup") => Has(m, "scalar")
  /\ (k = "notifgroup") => Has(m, "notification")
  /\ (k = "trap") => (Len(arcs) = 1 /\ ~arcs[1].lab /\ (p # 0 \/ r = "base"))
  /\ (p = 0) => r \in Roots
  \* conceptual tables: a row hangs under a table of its module (one row per table), columns under a row
  /\ (k = "row") => (p # 0 /\ nodes[p].kind = "table" /\ nodes[p].mod = m /\ ~\E j \in DOMAIN nodes : nodes[j].parent = p)
  /\ (k = "column") => (p # 0 /\ nodes[p].kind = "row" /\ nodes[p].mod = m)
  /\ (k \notin {"row", "column"} /\ p # 0) => nodes[p].kind \notin {"table", "row", "column"}
  /\ (p # 0) => (r = "-" /\ nodes[p].kind # "trap")
  \* two declarations must not collide on one OID (legal modules define an OID once)
  /\ LET new == [mod |-> m, root |-> r, parent |-> p, arcs |-> arcs, kind |-> k] IN
     /\ nodes' = Append(nodes, new)
     /\ decl' = [decl EXCEPT ![m] = InsertAt(@, pos, Len(nodes) + 1)]

Next == \E m \in 1..NMods, k \in Kinds, arcs \in ArcForms :
          \/ \E r \in Roots, pos \in 1..MaxNodes : AddNode(m, r, 0, arcs, k, pos)
          \/ \E p \in DOMAIN nodes, pos \in 1..MaxNodes : AddNode(m, "-", p, arcs, k, pos)
Spec == Init /\ [][Next]_vars

\* distinct declarations carry distinct OIDs in a legal scenario
Legal == /\ \A i, j \in DOMAIN nodes : i # j => GT(i) # GT(j)
         /\ \A i \in DOMAIN nodes : nodes[i].kind = "table" => \E j \in DOMAIN nodes : nodes[j].parent = i /\ nodes[j].kind = "row"
         /\ \A i \in DOMAIN nodes : nodes[i].kind = "row" => \E j \in DOMAIN nodes : nodes[j].parent = i /\ nodes[j].kind = "column"

\* modules importing from each other in a cycle cannot be loaded together by pysnmp's MibBuilder whatever the generated
\* text looks like (a platform limit, triaged under C04): the executed-module observation is taken on acyclic sets only
ImportsOf(m) == {nodes[nodes[i].parent].mod : i \in {j \in ModNodes(m) : nodes[j].parent # 0}} \ {m}
RECURSIVE Reach(_, _)
Reach(S, k) == IF k = 0 THEN S ELSE Reach(S \cup UNION {ImportsOf(x) : x \in S}, k - 1)
Cyclic == \E m \in 1..NMods : m \in Reach(ImportsOf(m), NMods)

\* ---- expected observations (used by the monitor)
\* module summary
OidsOf(m) == {GT(i) : i \in ModNodes(m)}
IdentityOf(m) == IF Has(m, "moduleidentity") THEN GT(CHOOSE i \in ModNodes(m) : nodes[i].kind = "moduleidentity") ELSE <<>>
ComplianceOf(m) == {GT(i) : i \in {j \in ModNodes(m) : nodes[j].kind = "compliance"}}
IsPfx(p, o) == Len(p) <= Len(o) /\ SubSeq(o, 1, Len(p)) = p
\* enterprise: the first seven arcs of an OID under 1.3.6.1.4.1 defined by the module
EnterpriseCandidates(m) == {SubSeq(o, 1, 7) : o \in {x \in OidsOf(m) : Len(x) >= 7 /\ IsPfx(Base, x)}}
=============================================================================
