----------------------------- MODULE MibCompile -----------------------------
(* MibCompiler.compile() of pysmi/compiler.py as a state machine.             *)
(*                                                                            *)
(* One action per loop iteration / component call of the code.  The answers   *)
(* of the components (what a source holds, what the parser / pass 1 / a       *)
(* searcher / the code generator / a borrower / the writer say) and the       *)
(* compile options are the quantified variables.  They live in the LAZY       *)
(* environment `env`: a question is answered nondeterministically the first   *)
(* time it is asked and the answer is fixed afterwards, so TLC enumerates     *)
(* exactly the configurations that can influence a behaviour.  Python dicts   *)
(* are insertion ordered; they are modelled as duplicate-free sequences so    *)
(* that the specification is deterministic given `env` and its `log` can be   *)
(* compared call by call with the call log of the real compiler.              *)
EXTENDS Naturals, Sequences, FiniteSets, TLC, MibCompileProps

CONSTANTS
  NSrc, NSea, NBor,        \* number of sources / searchers / borrowers
  ReqSet,                  \* set of request sequences (Seq(name))
  SrcAnswersFor(_),        \* name -> set of answers a source may give for that name
  SeaAns, GenAns, BorAns, PutAns,   \* answer alphabets (sets of strings) of searchers / codegen / borrowers / writer
  ConstImp,                \* imports added to every module by pass 1 (constImports), a sequence
  Dev_StaleStatus,         \* named deviations (FALSE = intended design), see DESIGN.md section 3
  Dev_EmptyVanishes,
  Dev_MissingRequestedNotBorrowed,
  Dev_RefetchAlias         \* a name that is not a module name is fetched again each time it is referenced

VARIABLES pc, req, work, cur, si, todo,
          parsed, psrc, failed, borrowed, bsrc, built, btext,
          proc, canon, env, log, ended, fetched
vars == <<pc, req, work, cur, si, todo, parsed, psrc, failed, borrowed, bsrc, built, btext,
          proc, canon, env, log, ended, fetched>>

\* ------------------------------------------------------------ environment
A(r)       == [r |-> r, mods |-> <<>>]
Bool       == {A("T"), A("F")}
Asked(k)   == k \in DOMAIN env
Ask(k, S)  == IF k \in DOMAIN env THEN {env[k]} ELSE S
Rec(e, k, a) == IF k \in DOMAIN e THEN e ELSE (k :> a) @@ e
OptKey(o)  == <<"opt", 0, o>>
OptNames   == {"noDeps", "rebuild", "ignoreErrors", "genTexts", "writeMibs", "dryRun"}
\* every options record consistent with what has been asked so far
OptCompletions ==
  {o \in [OptNames -> BOOLEAN] : \A n \in OptNames : Asked(OptKey(n)) => (o[n] = (env[OptKey(n)].r = "T"))}
Flavs == [k \in 1..NBor |-> IF Asked(<<"bflav", k, "-">>) THEN env[<<"bflav", k, "-">>].r = "T" ELSE FALSE]
FlavCompletions ==
  {f \in [1..NBor -> BOOLEAN] : \A k \in 1..NBor : Asked(<<"bflav", k, "-">>) => (f[k] = (env[<<"bflav", k, "-">>].r = "T"))}

\* ------------------------------------------------------------ ordered dicts
InSeq(x, s) == \E i \in DOMAIN s : s[i] = x
PutSeq(s, x) == IF InSeq(x, s) THEN s ELSE Append(s, x)
DelSeq(s, x) == SelectSeq(s, LAMBDA y : y # x)
SetProc(p, n, st, err) == [m \in DOMAIN p \cup {n} |-> IF m = n THEN [st |-> st, err |-> err] ELSE p[m]]
DelProc(p, n) == [m \in DOMAIN p \ {n} |-> p[m]]
SetFn(f, k, v) == [x \in DOMAIN f \cup {k} |-> IF x = k THEN v ELSE f[x]]

Init ==
  /\ pc = "pop" /\ req \in ReqSet /\ work = req /\ cur = "-" /\ si = 0 /\ todo = <<>>
  /\ parsed = <<>> /\ psrc = <<>> /\ failed = <<>> /\ borrowed = <<>> /\ bsrc = <<>>
  /\ built = <<>> /\ btext = <<>> /\ proc = <<>> /\ canon = {} /\ env = <<>> /\ log = <<>>
  /\ ended = "no" /\ fetched = {}

\* ------------------------------------------------------------ discovery
Pop ==
  /\ pc = "pop"
  /\ IF work = <<>>
     THEN pc' = "search" /\ todo' = parsed /\ UNCHANGED <<work, cur, si>>
     ELSE LET n == Head(work) IN
          /\ work' = Tail(work) /\ todo' = todo
          /\ IF InSeq(n, parsed) \/ InSeq(n, failed) \/ (~Dev_RefetchAlias /\ n \in fetched)
             THEN pc' = "pop" /\ UNCHANGED <<cur, si>>
             ELSE pc' = "src" /\ cur' = n /\ si' = 1
  /\ UNCHANGED <<req, parsed, psrc, failed, borrowed, bsrc, built, btext, proc, canon, env, log, ended, fetched>>

\* state threaded through the modules of one file:  <<parsed, psrc, failed, proc, work, canon, log, ok>>
RECURSIVE FoldMods(_, _, _)
FoldMods(mods, j, st) ==
  IF j > Len(mods) \/ ~st.ok THEN st
  ELSE LET m == mods[j] IN
       IF m.sem # "ok"
       THEN [st EXCEPT !.ok = FALSE,
                       !.log = Append(st.log, Ev("sym", si, m.name, cur, "symerr", NoText, FALSE, 0, <<>>, <<>>))]
       ELSE FoldMods(mods, j + 1,
             [st EXCEPT
                !.parsed = PutSeq(st.parsed, m.name),
                !.psrc   = SetFn(st.psrc, m.name, si),
                \* a copy of the module has been obtained: earlier failure records for the requested
                \* name and for the module name are void (the code only drops failedMibs[mibname])
                !.failed = IF Dev_StaleStatus THEN DelSeq(st.failed, cur) ELSE DelSeq(DelSeq(st.failed, cur), m.name),
                !.proc   = IF Dev_StaleStatus THEN st.proc
                           ELSE LET stale == {x \in {cur, m.name} : x \in DOMAIN st.proc /\ InSeq(x, st.failed)}
                                IN [x \in DOMAIN st.proc \ stale |-> st.proc[x]],
                !.work   = st.work \o m.imp \o ConstImp,
                !.canon  = IF InSeq(cur, req) THEN st.canon \cup {m.name} ELSE st.canon,
                !.log    = Append(st.log, Ev("sym", si, m.name, cur, "ok", NoText, FALSE, 0, m.imp \o ConstImp, <<>>))])

ModNames(mods) == [j \in DOMAIN mods |-> mods[j].name]

Src ==
  /\ pc = "src"
  /\ IF si > NSrc
     THEN \* the for-else branch: no source had a usable copy
          /\ pc' = "pop"
          /\ failed' = PutSeq(failed, cur)
          /\ proc' = IF cur \in DOMAIN proc THEN proc ELSE SetProc(proc, cur, "missing", NoErr)
          /\ UNCHANGED <<work, si, parsed, psrc, canon, env, log, fetched>>
     ELSE \E a \in Ask(<<"src", si, cur>>, SrcAnswersFor(cur)) :
          /\ env' = Rec(env, <<"src", si, cur>>, a)
          /\ LET get(ans) == Ev("get", si, cur, "-", ans, <<"F", si, cur>>, FALSE, 0, <<>>, <<>>)
                 prs(ans) == Ev("parse", si, cur, cur, ans, <<"F", si, cur>>, FALSE, 0, <<>>, ModNames(a.mods))
                 fail(l)  == /\ failed' = PutSeq(failed, cur)
                             /\ proc' = SetProc(proc, cur, "failed", <<"src", si, cur>>)
                             /\ log' = l /\ si' = si + 1 /\ pc' = "src"
                             /\ UNCHANGED <<work, parsed, psrc, canon, fetched>>
             IN CASE a.r = "nf"  -> /\ log' = Append(log, get("nf")) /\ si' = si + 1 /\ pc' = "src"
                                    /\ UNCHANGED <<work, parsed, psrc, failed, proc, canon, fetched>>
                  [] a.r = "err" -> fail(Append(log, get("err")))
                  [] a.r \in {"parseerr", "lexerr"} -> fail(log \o <<get("data"), prs(a.r)>>)
                  [] a.r = "empty" ->
                        IF Dev_EmptyVanishes
                        THEN /\ log' = log \o <<get("data"), prs("ok")>> /\ pc' = "pop"
                             /\ UNCHANGED <<work, si, parsed, psrc, failed, proc, canon, fetched>>
                        ELSE fail(log \o <<get("data"), prs("ok")>>)
                  [] OTHER ->
                        LET st0 == [parsed |-> parsed, psrc |-> psrc, failed |-> failed, proc |-> proc, work |-> work,
                                    canon |-> canon, log |-> log \o <<get("data"), prs("ok")>>, ok |-> TRUE]
                            st == FoldMods(a.mods, 1, st0)
                        IN IF st.ok
                           THEN /\ parsed' = st.parsed /\ psrc' = st.psrc /\ failed' = st.failed /\ proc' = st.proc
                                /\ work' = st.work /\ canon' = st.canon /\ log' = st.log
                                /\ pc' = "pop" /\ si' = si /\ fetched' = fetched \cup {cur}
                           ELSE /\ parsed' = st.parsed /\ psrc' = st.psrc /\ work' = st.work /\ canon' = st.canon
                                /\ failed' = PutSeq(st.failed, cur)
                                /\ proc' = SetProc(st.proc, cur, "failed", <<"src", si, cur>>)
                                /\ log' = st.log /\ si' = si + 1 /\ pc' = "src" /\ fetched' = fetched
  /\ UNCHANGED <<req, cur, todo, borrowed, bsrc, built, btext, ended>>

\* ------------------------------------------------------------ searchers
SeaAnswers == {A(x) : x \in SeaAns}   \* subset of {"fresh", "absent", "error", "silent"}

Search ==
  /\ pc = "search"
  /\ IF todo = <<>>
     THEN pc' = "gen" /\ todo' = parsed /\ UNCHANGED <<cur, si>>
     ELSE pc' = "sea" /\ cur' = Head(todo) /\ si' = 1 /\ todo' = Tail(todo)
  /\ UNCHANGED <<req, work, parsed, psrc, failed, borrowed, bsrc, built, btext, proc, canon, env, log, ended, fetched>>

\* one searcher call; phase = "sea" (parsed modules) or "bsea" (borrowed ones)
SeaCall(phase, mtime, onFresh(_), onNone(_, _)) ==
  IF si > NSea
  THEN IF cur \in canon
       THEN onNone(FALSE, env)
       ELSE \E nd \in Ask(OptKey("noDeps"), Bool) : onNone(nd.r = "T", Rec(env, OptKey("noDeps"), nd))
  ELSE \E rb \in Ask(OptKey("rebuild"), Bool) : \E a \in Ask(<<phase, si, cur>>, SeaAnswers) :
       LET e1 == Rec(Rec(env, OptKey("rebuild"), rb), <<phase, si, cur>>, a)
           ev == Ev("sea", si, cur, "-", a.r, NoText, rb.r = "T", mtime, <<>>, <<>>)
       IN /\ env' = e1 /\ log' = Append(log, ev)
          /\ IF a.r = "fresh" THEN onFresh(TRUE)
             ELSE si' = si + 1 /\ pc' = phase /\ UNCHANGED <<parsed, borrowed, built, btext, proc>>

Sea ==
  /\ pc = "sea"
  /\ SeaCall("sea", 100 + psrc[cur],
       LAMBDA x : /\ parsed' = DelSeq(parsed, cur) /\ proc' = SetProc(proc, cur, "untouched", NoErr)
                  /\ pc' = "search" /\ si' = si /\ UNCHANGED <<borrowed, built, btext>>,
       LAMBDA nd, e : /\ env' = e /\ log' = log /\ pc' = "search" /\ si' = si
                      /\ IF nd THEN parsed' = DelSeq(parsed, cur) /\ proc' = SetProc(proc, cur, "untouched", NoErr)
                               ELSE UNCHANGED <<parsed, proc>>
                      /\ UNCHANGED <<borrowed, built, btext>>)
  /\ UNCHANGED <<req, work, cur, todo, psrc, failed, bsrc, canon, ended, fetched>>

\* ------------------------------------------------------------ code generation
Gen ==
  /\ pc = "gen"
  /\ IF todo = <<>>
     THEN /\ pc' = "borrow" /\ todo' = failed
          /\ UNCHANGED <<parsed, failed, built, btext, proc, env, log>>
     ELSE LET m == Head(todo) IN
          \E gt \in Ask(OptKey("genTexts"), Bool) : \E a \in Ask(<<"gen", 0, m>>, {A(x) : x \in GenAns}) :
          /\ env' = Rec(Rec(env, OptKey("genTexts"), gt), <<"gen", 0, m>>, a)
          /\ log' = Append(log, Ev("gen", psrc[m], m, "-", a.r, <<"G", 0, m>>, gt.r = "T", 0, <<>>, <<>>))
          /\ todo' = Tail(todo) /\ parsed' = DelSeq(parsed, m) /\ pc' = "gen"
          /\ IF a.r = "ok"
             THEN /\ built' = PutSeq(built, m) /\ btext' = SetFn(btext, m, <<"G", 0, m>>)
                  /\ UNCHANGED <<failed, proc>>
             ELSE /\ failed' = PutSeq(failed, m) /\ proc' = SetProc(proc, m, "failed", <<"gen", 0, m>>)
                  /\ UNCHANGED <<built, btext>>
  /\ UNCHANGED <<req, work, cur, si, psrc, borrowed, bsrc, canon, ended, fetched>>

\* ------------------------------------------------------------ borrowing
Eligible(m, nd) == ~nd \/ m \in canon \/ (~Dev_MissingRequestedNotBorrowed /\ InSeq(m, req))

Borrow ==
  /\ pc = "borrow"
  /\ IF todo = <<>>
     THEN pc' = "bcheck" /\ todo' = borrowed /\ UNCHANGED <<cur, si, env>>
     ELSE LET m == Head(todo) IN
          /\ todo' = Tail(todo)
          /\ IF m \in canon \/ NBor = 0
             THEN env' = env /\ (IF NBor = 0 THEN pc' = "borrow" /\ UNCHANGED <<cur, si>> ELSE pc' = "bor" /\ cur' = m /\ si' = 1)
             ELSE \E nd \in Ask(OptKey("noDeps"), Bool) :
                  /\ env' = Rec(env, OptKey("noDeps"), nd)
                  /\ IF Eligible(m, nd.r = "T") THEN pc' = "bor" /\ cur' = m /\ si' = 1
                     ELSE pc' = "borrow" /\ UNCHANGED <<cur, si>>
  /\ UNCHANGED <<req, work, parsed, psrc, failed, borrowed, bsrc, built, btext, proc, canon, log, ended, fetched>>

Bor ==
  /\ pc = "bor"
  /\ IF si > NBor
     THEN pc' = "borrow" /\ UNCHANGED <<si, failed, borrowed, bsrc, env, log>>
     ELSE \E fl \in Ask(<<"bflav", si, "-">>, Bool) : \E gt \in Ask(OptKey("genTexts"), Bool) :
          LET e1 == Rec(Rec(env, <<"bflav", si, "-">>, fl), OptKey("genTexts"), gt) IN
          IF fl.r # gt.r
          THEN \* AbstractBorrower.getData refuses without touching its reader
               /\ env' = e1 /\ log' = log /\ si' = si + 1 /\ pc' = "bor" /\ UNCHANGED <<failed, borrowed, bsrc>>
          ELSE \E a \in Ask(<<"bor", si, cur>>, {A(x) : x \in BorAns}) :
               /\ env' = Rec(e1, <<"bor", si, cur>>, a)
               /\ log' = Append(log, Ev("bor", si, cur, "-", a.r, <<"B", si, cur>>, gt.r = "T", 0, <<>>, <<>>))
               /\ IF a.r = "ok"
                  THEN /\ borrowed' = PutSeq(borrowed, cur) /\ bsrc' = SetFn(bsrc, cur, si)
                       /\ failed' = DelSeq(failed, cur) /\ pc' = "borrow" /\ si' = si
                  ELSE si' = si + 1 /\ pc' = "bor" /\ UNCHANGED <<failed, borrowed, bsrc>>
  /\ UNCHANGED <<req, work, cur, todo, parsed, psrc, built, btext, proc, canon, ended, fetched>>

BCheck ==
  /\ pc = "bcheck"
  /\ IF todo = <<>>
     THEN pc' = "decide" /\ UNCHANGED <<cur, si, todo>>
     ELSE pc' = "bsea" /\ cur' = Head(todo) /\ si' = 1 /\ todo' = Tail(todo)
  /\ UNCHANGED <<req, work, parsed, psrc, failed, borrowed, bsrc, built, btext, proc, canon, env, log, ended, fetched>>

BSea ==
  /\ pc = "bsea"
  /\ SeaCall("bsea", 200 + bsrc[cur],
       LAMBDA x : /\ borrowed' = DelSeq(borrowed, cur) /\ proc' = SetProc(proc, cur, "untouched", NoErr)
                  /\ pc' = "bcheck" /\ si' = si /\ UNCHANGED <<parsed, built, btext>>,
       LAMBDA nd, e : /\ env' = e /\ log' = log /\ pc' = "bcheck" /\ si' = si
                      /\ borrowed' = DelSeq(borrowed, cur)
                      /\ IF ~Eligible(cur, nd)
                         THEN proc' = SetProc(proc, cur, "untouched", NoErr) /\ UNCHANGED <<built, btext>>
                         ELSE /\ built' = PutSeq(built, cur) /\ btext' = SetFn(btext, cur, <<"B", bsrc[cur], cur>>)
                              /\ proc' = SetProc(proc, cur, "borrowed", NoErr)
                      /\ parsed' = parsed)
  /\ UNCHANGED <<req, work, cur, todo, psrc, failed, bsrc, canon, ended, fetched>>

\* ------------------------------------------------------------ all-or-nothing decision
Decide ==
  /\ pc = "decide"
  /\ IF failed = <<>>
     THEN pc' = "write" /\ todo' = built /\ UNCHANGED <<proc, env, ended>>
     ELSE \E ie \in Ask(OptKey("ignoreErrors"), Bool) :
          /\ env' = Rec(env, OptKey("ignoreErrors"), ie)
          /\ IF ie.r = "T"
             THEN pc' = "write" /\ todo' = built /\ UNCHANGED <<proc, ended>>
             ELSE /\ proc' = [m \in DOMAIN proc \cup Rng(built) |->
                                 IF InSeq(m, built) THEN [st |-> "unprocessed", err |-> NoErr] ELSE proc[m]]
                  /\ pc' = "done" /\ ended' = "return" /\ todo' = <<>>
  /\ UNCHANGED <<req, work, cur, si, parsed, psrc, failed, borrowed, bsrc, built, btext, canon, log, fetched>>

\* ------------------------------------------------------------ writing
Write ==
  /\ pc = "write"
  /\ IF todo = <<>>
     THEN pc' = "done" /\ ended' = "return" /\ UNCHANGED <<todo, built, failed, proc, env, log>>
     ELSE LET m == Head(todo)
              okProc == IF m \in DOMAIN proc THEN proc ELSE SetProc(proc, m, "compiled", NoErr) IN
          \E wm \in Ask(OptKey("writeMibs"), Bool) :
          /\ todo' = Tail(todo) /\ built' = DelSeq(built, m) /\ pc' = "write" /\ ended' = ended
          /\ IF wm.r = "F"
             THEN /\ env' = Rec(env, OptKey("writeMibs"), wm) /\ log' = log /\ proc' = okProc /\ failed' = failed
             ELSE \E dr \in Ask(OptKey("dryRun"), Bool) : \E a \in Ask(<<"put", 0, m>>, {A(x) : x \in PutAns}) :
                  /\ env' = Rec(Rec(Rec(env, OptKey("writeMibs"), wm), OptKey("dryRun"), dr), <<"put", 0, m>>, a)
                  /\ log' = Append(log, Ev("put", 0, m, "-", a.r, btext[m], dr.r = "T", 0, <<>>, <<>>))
                  /\ IF a.r = "ok" THEN proc' = okProc /\ failed' = failed
                     ELSE proc' = SetProc(proc, m, "failed", <<"put", 0, m>>) /\ failed' = PutSeq(failed, m)
  /\ UNCHANGED <<req, work, cur, si, parsed, psrc, borrowed, bsrc, btext, canon, fetched>>

\* compile() has returned; the self-loop lets TLC's deadlock check expose any other state without successor
\* (a behaviour the specification cannot finish would silently drop out of the exported scenarios)
Finished == pc = "done" /\ UNCHANGED vars
Step == Pop \/ Src \/ Search \/ Sea \/ Gen \/ Borrow \/ Bor \/ BCheck \/ BSea \/ Decide \/ Write
Next == Step \/ Finished
Spec == Init /\ [][Next]_vars /\ WF_vars(Step)

\* ------------------------------------------------------------ properties (see MibCompileProps)
\* A property must hold for every value of an option that was never consulted.
ForAllOpts(P(_)) == \A o \in OptCompletions : P(o)

TypeOK == /\ pc \in {"pop", "src", "search", "sea", "gen", "borrow", "bor", "bcheck", "bsea", "decide", "write", "done"}
          /\ \A m \in DOMAIN proc : proc[m].st \in Status
          /\ ended \in {"no", "return"}
P_NoRaise == NoRaise(ended)
P_Terminates == Terminates(ended)
P_OneOfSix == OneOfSix(proc, ended)
P_Accounted == Accounted(req, log, proc, ended)
P_PutAtMostOnce == PutAtMostOnce(log)
P_StatusMatchesEffect == ForAllOpts(LAMBDA o : StatusMatchesEffect(log, proc, o, ended))
P_TextIsGenerated == TextIsGenerated(log)
P_FailedCarriesError == FailedCarriesError(log, proc, ended)
P_OptionsPassed == ended = "return" => \E o \in OptCompletions : OptionsPassed(log, o)
P_FetchAtMostOnce == FetchAtMostOnce(log)
P_SourceOrder == SourceOrder(log)
P_CompiledFromAccepted == CompiledFromAccepted(log)
P_BadKeepStatus == BadKeepStatus(log, proc, ended)
P_BorrowedMeansLent == BorrowedMeansLent(log, proc, ended)
P_AllOrNothing == ForAllOpts(LAMBDA o : AllOrNothing(log, proc, o, ended))
P_FreshMeansUntouched == ForAllOpts(LAMBDA o : FreshMeansUntouched(req, log, proc, o, ended))
P_SearcherOrder == SearcherOrder(log)
P_SearcherSeesSourceTime == SearcherSeesSourceTime(log)
P_NoDepsOnlyRequested == ForAllOpts(LAMBDA o : NoDepsOnlyRequested(req, log, o))
P_GeneratedWhenNeeded == ForAllOpts(LAMBDA o : GeneratedWhenNeeded(req, log, o, ended))
P_BorrowOnlyFailures == BorrowOnlyFailures(log)
P_FlavourMatch == \E o \in OptCompletions : FlavourMatch(log, o)
P_BorrowOrder == BorrowOrder(log)
P_Verbatim == ForAllOpts(LAMBDA o : Verbatim(log, proc, o, ended))
P_NeverReplaceCompiled == NeverReplaceCompiled(log)
P_RequestedStayEligible ==
  \A o \in OptCompletions : \A f \in FlavCompletions : RequestedStayEligible(req, log, proc, o, NBor, f, ended)
Termination == <>(ended # "no")

\* scenario export (terminal states): everything the doubles need + what the model predicts
EnvList == LET ks == DOMAIN env IN {[k |-> k, r |-> env[k].r, mods |-> env[k].mods] : k \in ks}
Scenario == [req |-> req, env |-> EnvList, log |-> log,
             proc |-> {[name |-> m, st |-> proc[m].st, err |-> proc[m].err] : m \in DOMAIN proc}]
=============================================================================
