------------------------------- MODULE Texts -------------------------------
(* C15: descriptive texts.  A text is a sequence of character CLASSES; the    *)
(* renderer picks a concrete representative for each class and the observed   *)
(* strings are tokenised back into classes, so the emission rule, the         *)
(* whitespace normalisation and "equal up to whitespace" are defined here.    *)
EXTENDS Naturals, Sequences, FiniteSets, TLC

Classes == {"W1", "W2", "N", "SP", "TAB", "LF", "CRLF", "CR", "BSL", "APOS", "TRIAPOS", "NONASCII", "LONG", "BRACE", "PCT", "HASH"}
White == {"SP", "TAB", "LF", "CRLF", "CR"}
Clauses == {"DESCRIPTION", "REFERENCE", "ORGANIZATION", "CONTACT-INFO", "UNITS", "DISPLAY-HINT", "PRODUCT-RELEASE", "REVDESC"}
\* texts that are only emitted when text generation is requested
OnlyWithTexts == {"DESCRIPTION", "REFERENCE", "ORGANIZATION", "CONTACT-INFO"}
\* clauses that go through the text filter (whitespace-normalised by the default filter)
Filtered == {"DESCRIPTION", "REFERENCE", "ORGANIZATION", "CONTACT-INFO", "UNITS", "REVDESC"}

VARIABLES sc
vars == <<sc>>
CONSTANTS MaxLen, TextClasses

\* default filter: every run of whitespace becomes one space (nothing is trimmed)
RECURSIVE Norm(_, _)
Norm(t, i) == IF i > Len(t) THEN <<>>
              ELSE IF t[i] \in White
                   THEN (IF i > 1 /\ t[i - 1] \in White THEN <<>> ELSE <<"SP">>) \o Norm(t, i + 1)
                   ELSE <<t[i]>> \o Norm(t, i + 1)
Normalise(t) == Norm(t, 1)
\* "up to whitespace": normalised, leading/trailing blank removed; a LONG word may have been broken by a line wrap
Trim(t) == LET a == IF t # <<>> /\ t[1] = "SP" THEN Tail(t) ELSE t
           IN IF a # <<>> /\ a[Len(a)] = "SP" THEN SubSeq(a, 1, Len(a) - 1) ELSE a
Canon(t) == Trim(Normalise(t))
EqUpToWs(a, b) == Canon(a) = Canon(b)

Emitted(clause, genTexts) == genTexts \/ clause \notin OnlyWithTexts
ExpectedJson(clause, filter, t) == IF filter = "identity" \/ clause \notin Filtered THEN t ELSE Normalise(t)

Init == sc = <<>>
Choose == \E c \in Clauses, g \in BOOLEAN, f \in {"default", "identity"} : \E t \in UNION {[1..n -> TextClasses] : n \in 0..MaxLen} :
            sc' = [clause |-> c, genTexts |-> g, filter |-> f, text |-> t]
Next == sc = <<>> /\ Choose
Spec == Init /\ [][Next]_vars
=============================================================================
