------------------------------ MODULE History ------------------------------
(* One parser / code generator / compiler INSTANCE is fed a history of       *)
(* inputs (C12).  The design obligation that makes results depend on the     *)
(* input only is a reset discipline: whatever an operation does to the       *)
(* instance's hidden scratch state (lexer line and start condition, module   *)
(* revision, counters for fake symbols, per-module maps, the imports map of  *)
(* the syntax tree it was handed) is undone before the next operation can    *)
(* observe it - after success AND after failure.  The model makes each       *)
(* obligation a separate step so that a missing reset is a missing step.     *)
EXTENDS Naturals, Sequences, FiniteSets, TLC

CONSTANTS Inputs, Kinds, MaxLen,
          Dev_NoResetOnFailure,      \* named deviation: parse() skips reset() when it raises
          Dev_RevisionSurvives       \* named deviation: the module revision is not cleared at the start of genCode()

VARIABLES kind, hist, phase, scratch, outs
vars == <<kind, hist, phase, scratch, outs>>
\* scratch: which hidden parts currently hold leftovers of an earlier input
Parts == {"lexer", "revision", "maps"}

Init == kind \in Kinds /\ hist = <<>> /\ phase = "idle" /\ scratch = {} /\ outs = <<>>
\* an operation starts: per-module maps are cleared at entry by the generators (and, intended, the revision)
Begin(i) == /\ phase = "idle" /\ Len(hist) < MaxLen
            /\ hist' = Append(hist, i) /\ phase' = "busy"
            /\ scratch' = (scratch \ {"maps"}) \ (IF Dev_RevisionSurvives THEN {} ELSE {"revision"})
            \* the result is a function of the input alone exactly if nothing is left over at this point
            /\ outs' = Append(outs, IF scratch' = {} THEN <<i, "clean">> ELSE <<i, "tainted">>)
            /\ kind' = kind
\* ... and ends, successfully or not, leaving every part dirty
EndOk == /\ phase = "busy" /\ phase' = "reset" /\ scratch' = Parts /\ UNCHANGED <<kind, hist, outs>>
EndFail == /\ phase = "busy" /\ phase' = (IF Dev_NoResetOnFailure THEN "idle" ELSE "reset") /\ scratch' = Parts
           /\ UNCHANGED <<kind, hist, outs>>
\* reset(): a new lexer; the generators clear their maps lazily at the next Begin
Reset == /\ phase = "reset" /\ phase' = "idle" /\ scratch' = scratch \ {"lexer"} /\ UNCHANGED <<kind, hist, outs>>
Next == (\E i \in Inputs : Begin(i)) \/ EndOk \/ EndFail \/ Reset
Spec == Init /\ [][Next]_vars

\* C12 at design level: every result is computed from a clean instance
Stateless == \A k \in DOMAIN outs : outs[k][2] = "clean"
=============================================================================
