------------------------------- MODULE MibCopy -------------------------------
(* scripts/mibcopy.py: fold source MIB files into a destination directory.     *)
(*                                                                             *)
(* A source file is [mod, rev, id]: the module it holds ("-" = unparsable),    *)
(* its latest revision (0 = no REVISION clause, which the script reads as the  *)
(* epoch) and the identity of its content.  The destination maps module names  *)
(* to the copy stored under that name (or NoCopy).  The script visits the      *)
(* files in the order the command line and os.walk() give them - the order is  *)
(* NOT under the user's control, so every permutation is a behaviour.          *)
(* One action per loop iteration of the script: Visit(f) =                     *)
(*   getMibRevision(source) -> [cached or getMibRevision(destination)] ->      *)
(*   compare -> shutil.copy / NOT COPIED / FAILED.                             *)
EXTENDS Naturals, Sequences, FiniteSets

CONSTANTS UsageChoices,  \* subset of UsageKinds explored
          FileSets,     \* set of source file sets; a file is [mod, rev, id]
          InitDests,    \* set of initial destinations: functions Names -> copies
          Names,        \* module names
          Dev_NoRevNeverCopied,   \* absent destination compares as epoch and ">=" keeps it (fixed: af5e20b)
          Dev_GreaterOnly,        \* compare with ">" instead of ">="  (equal revision overwrites)
          Dev_RevisionLeak        \* a file without REVISION inherits the revision of the file parsed before it

NoCopy == [mod |-> "-", rev |-> 0, id |-> 0]
VARIABLES srcs,      \* the source files of this run
          todo,      \* files not yet visited
          dest,      \* Names -> copy stored in the destination under that name
          dest0,     \* the destination before the run
          cache,     \* mibsRevisions: Names -> revision the script believes the destination holds (99 = not cached, 98 = "none")
          order,     \* visiting order so far (sequence of file ids) - history variable
          seen, copied, failedn, notcopied,  \* counters / report
          lastrev,   \* revision of the last successfully parsed text (only meaningful with Dev_RevisionLeak)
          usage,     \* command line: "none" | "help" | "badOpt" | "oneArg" | "dstIsFile"
          exitc      \* exit status (255 = still running)
vars == <<srcs, todo, dest, dest0, cache, order, seen, copied, failedn, notcopied, lastrev, usage, exitc>>
UsageKinds == {"none", "help", "badOpt", "oneArg", "dstIsFile"}

NotCached == 99
NoneRev == 98
Parsable(f) == f.mod # "-"

Init ==
  /\ srcs \in FileSets /\ todo = srcs /\ dest0 \in InitDests /\ dest = dest0
  /\ cache = [n \in Names |-> NotCached] /\ order = <<>>
  /\ seen = 0 /\ copied = {} /\ failedn = 0 /\ notcopied = {} /\ lastrev = 0
  /\ usage \in UsageChoices /\ exitc = 255

\* option parsing: --help exits 0, an unknown option / fewer than two arguments / a destination that is a regular
\* file exit 64; in all these cases no source is visited and the destination is left alone
Args ==
  /\ exitc = 255 /\ usage # "none" /\ todo # {}
  /\ exitc' = IF usage = "help" THEN 0 ELSE 64
  /\ todo' = {}
  /\ UNCHANGED <<srcs, dest, dest0, cache, order, seen, copied, failedn, notcopied, lastrev, usage>>
Finish ==
  /\ exitc = 255 /\ todo = {} /\ exitc' = 0
  /\ UNCHANGED <<srcs, todo, dest, dest0, cache, order, seen, copied, failedn, notcopied, lastrev, usage>>

\* revision the script extracts from a text
RevSeen(r) == IF Dev_RevisionLeak /\ r = 0 THEN lastrev ELSE r

Visit(f) ==
  /\ usage = "none" /\ exitc = 255 /\ UNCHANGED <<usage, exitc>>
  /\ f \in todo /\ todo' = todo \ {f} /\ srcs' = srcs /\ order' = Append(order, f.id) /\ seen' = seen + 1 /\ dest0' = dest0
  /\ IF ~Parsable(f)
     THEN /\ failedn' = failedn + 1
          /\ UNCHANGED <<dest, cache, copied, notcopied, lastrev>>
     ELSE LET n == f.mod
              srcRev == RevSeen(f.rev)
              \* destination revision: cached value, else parse the destination copy (None when absent/unparsable)
              dstParsed == IF dest[n] = NoCopy THEN (IF Dev_NoRevNeverCopied THEN 0 ELSE NoneRev)
                           ELSE (IF Dev_RevisionLeak /\ dest[n].rev = 0 THEN srcRev ELSE dest[n].rev)
              dstRev == IF cache[n] # NotCached THEN cache[n] ELSE dstParsed
              keep == dstRev # NoneRev /\ (IF Dev_GreaterOnly THEN dstRev > srcRev ELSE dstRev >= srcRev)
          IN /\ lastrev' = IF cache[n] # NotCached \/ dest[n] = NoCopy THEN srcRev
                           ELSE (IF Dev_RevisionLeak /\ dest[n].rev = 0 THEN srcRev ELSE dest[n].rev)
             /\ IF keep
                THEN /\ notcopied' = notcopied \cup {f.id} /\ cache' = [cache EXCEPT ![n] = dstRev]
                     /\ UNCHANGED <<dest, copied, failedn>>
                ELSE /\ dest' = [dest EXCEPT ![n] = f] /\ copied' = copied \cup {f.id}
                     /\ cache' = [cache EXCEPT ![n] = srcRev]
                     /\ UNCHANGED <<notcopied, failedn>>

Next == (\E f \in todo : Visit(f)) \/ Args \/ Finish
Spec == Init /\ [][Next]_vars /\ WF_vars(Next)

\* ---------------------------------------------------------------- C20 formulas (over observables)
Done == exitc # 255
Visited == IF usage = "none" THEN srcs ELSE {}          \* the files the run has seen
SeenOf(n, files) == {f \in files : f.mod = n}
MaxRev(n, files, d0) == LET rs == {f.rev : f \in SeenOf(n, files)} \cup (IF d0[n] = NoCopy THEN {} ELSE {d0[n].rev})
                        IN CHOOSE r \in rs : \A q \in rs : q <= r
\* for every module name seen, the destination holds - under that name - a copy of that module whose
\* revision is the latest among the files seen and the initial destination (ties: any maximal copy)
LatestWins(d, d0, files) ==
  \A n \in Names : SeenOf(n, files) # {} =>
      /\ d[n] # NoCopy /\ d[n].mod = n
      /\ d[n].rev = MaxRev(n, files, d0)
      /\ (d[n] \in SeenOf(n, files) \/ d[n] = d0[n])
\* names never seen keep what they had
OthersUntouched(d, d0, files) == \A n \in Names : SeenOf(n, files) = {} => d[n] = d0[n]
\* the final report accounts for every file exactly once
Accounting(files, cp, nc, fl, sn) ==
  /\ sn = Cardinality(files) /\ cp \cap nc = {} /\ Cardinality(cp) + Cardinality(nc) + fl = sn
  /\ fl = Cardinality({f \in files : ~Parsable(f)})

P_LatestWins == Done => LatestWins(dest, dest0, Visited)
P_OthersUntouched == Done => OthersUntouched(dest, dest0, Visited)
P_Accounting == Done => Accounting(Visited, copied, notcopied, failedn, seen)
P_UsageLeavesDestination == (Done /\ usage # "none") => (dest = dest0 /\ seen = 0 /\ exitc = (IF usage = "help" THEN 0 ELSE 64))
P_ExitZero == (Done /\ usage = "none") => exitc = 0
\* monotone: the revision stored under a name never decreases
P_Monotone == [][\A n \in Names : dest[n] # NoCopy => dest'[n] # NoCopy /\ dest'[n].rev >= dest[n].rev]_vars
Termination == <>Done
TypeOK == /\ todo \subseteq srcs /\ seen \in 0..Cardinality(srcs)
          /\ \A n \in Names : dest[n] = NoCopy \/ dest[n].mod = n
=============================================================================
