---- MODULE MC_Mutate ----
EXTENDS Mutate, Json
ExportBase == (mut = NoMut /\ Len(file[1].decls) >= 1) => PrintT(ToJson([kind |-> "base", file |-> file, offset |-> offset, toks |-> BaseToks, fills |-> BaseFills, spans |-> ModSpans]))
ExportMut == (mut # NoMut) => PrintT(ToJson([kind |-> "mut", file |-> file, offset |-> offset, mut |-> mut]))
====
