-------------------------- MODULE MibCompileTrace --------------------------
(* Trace validation for MibCompiler.compile(): a batch of traces recorded from *)
(* the real code (component call log + returned map) is checked against       *)
(* MibCompile in one TLC run.                                                 *)
(*  - refinement: the environment is rebuilt from the OBSERVED answers, which *)
(*    makes MibCompile deterministic; its log and result must equal what the  *)
(*    code did (first difference is reported);                                *)
(*  - monitor: every property formula of MibCompileProps is evaluated on the  *)
(*    observed log/result, independently of refinement.                       *)
EXTENDS MibCompile, Json, IOUtils, TLCExt

VARIABLE tid
Traces == JsonDeserialize(IOEnv.TRACE_FILE)
T == Traces[tid]

EnvOf(t) == LET ks == {t.env[i].k : i \in DOMAIN t.env} IN
            [k \in ks |-> LET e == CHOOSE e \in Rng(t.env) : e.k = k IN [r |-> e.r, mods |-> e.mods]]
ProcOf(t) == LET ns == {t.proc[i].name : i \in DOMAIN t.proc} IN
             [n \in ns |-> LET e == CHOOSE e \in Rng(t.proc) : e.name = n IN [st |-> e.st, err |-> e.err]]

TInit ==
  /\ tid \in 1..Len(Traces)
  /\ pc = "pop" /\ req = T.req /\ work = T.req /\ cur = "-" /\ si = 0 /\ todo = <<>>
  /\ parsed = <<>> /\ psrc = <<>> /\ failed = <<>> /\ borrowed = <<>> /\ bsrc = <<>>
  /\ built = <<>> /\ btext = <<>> /\ proc = <<>> /\ canon = {} /\ env = EnvOf(T) /\ log = <<>>
  /\ ended = "no" /\ fetched = {}
TNext == Next /\ tid' = tid
TSpec == TInit /\ [][TNext]_<<vars, tid>>

TraceSrcAnswers(n) == {A("nf")}
TraceConstImp == <<>>

\* ---- refinement verdict
RECURSIVE FirstDiff(_, _, _)
FirstDiff(a, b, i) == IF i > Len(a) \/ i > Len(b) THEN (IF Len(a) = Len(b) THEN 0 ELSE i)
                      ELSE IF a[i] = b[i] THEN FirstDiff(a, b, i + 1) ELSE i
Brief(e) == <<e.ev, e.idx, e.name, e.ans>>
At(s, i) == IF i \in DOMAIN s THEN Brief(s[i]) ELSE <<"end", 0, "-", "-">>

\* ---- monitor: formulas on the observation
OO == [noDeps |-> T.opts.noDeps, rebuild |-> T.opts.rebuild, ignoreErrors |-> T.opts.ignoreErrors,
       genTexts |-> T.opts.genTexts, writeMibs |-> T.opts.writeMibs, dryRun |-> T.opts.dryRun]
OL == T.log
OP == ProcOf(T)
OE == T.ended
Checks == <<
  <<"NoRaise", NoRaise(OE)>>,
  <<"Terminates", Terminates(OE)>>,
  <<"OneOfSix", OneOfSix(OP, OE)>>,
  <<"Accounted", Accounted(T.req, OL, OP, OE)>>,
  <<"PutAtMostOnce", PutAtMostOnce(OL)>>,
  <<"StatusMatchesEffect", StatusMatchesEffect(OL, OP, OO, OE)>>,
  <<"TextIsGenerated", TextIsGenerated(OL)>>,
  <<"FailedCarriesError", FailedCarriesError(OL, OP, OE)>>,
  <<"OptionsPassed", OptionsPassed(OL, OO)>>,
  <<"FetchAtMostOnce", FetchAtMostOnce(OL)>>,
  <<"SourceOrder", SourceOrder(OL)>>,
  <<"CompiledFromAccepted", CompiledFromAccepted(OL)>>,
  <<"AllOrNothing", AllOrNothing(OL, OP, OO, OE)>>,
  <<"BadKeepStatus", BadKeepStatus(OL, OP, OE)>>,
  <<"BorrowedMeansLent", BorrowedMeansLent(OL, OP, OE)>>,
  <<"FreshMeansUntouched", FreshMeansUntouched(T.req, OL, OP, OO, OE)>>,
  <<"SearcherOrder", SearcherOrder(OL)>>,
  <<"SearcherSeesSourceTime", SearcherSeesSourceTime(OL)>>,
  <<"NoDepsOnlyRequested", NoDepsOnlyRequested(T.req, OL, OO)>>,
  <<"GeneratedWhenNeeded", GeneratedWhenNeeded(T.req, OL, OO, OE)>>,
  <<"BorrowOnlyFailures", BorrowOnlyFailures(OL)>>,
  <<"FlavourMatch", FlavourMatch(OL, OO)>>,
  <<"BorrowOrder", BorrowOrder(OL)>>,
  <<"Verbatim", Verbatim(OL, OP, OO, OE)>>,
  <<"NeverReplaceCompiled", NeverReplaceCompiled(OL)>>,
  <<"RequestedStayEligible", RequestedStayEligible(T.req, OL, OP, OO, T.nbor, T.flavs, OE)>> >>
Failed == {Checks[i][1] : i \in {j \in DOMAIN Checks : ~Checks[j][2]}}

Verdict ==
  LET d == FirstDiff(log, OL, 1)
      procOk == proc = OP /\ OE = "return"
  IN [tid |-> tid, id |-> T.id,
      refine |-> IF d = 0 /\ procOk THEN "ok" ELSE "drift",
      at |-> d, expected |-> At(log, d), got |-> At(OL, d), procOk |-> procOk,
      failed |-> Failed]
Report == (pc = "done") => PrintT(ToJson(Verdict))
=============================================================================
