---- MODULE SearcherTrace ----
(* Validation of answers recorded from the real searchers on materialised directories. *)
EXTENDS Searcher, Json, IOUtils, TLCExt, Sequences
VARIABLE tid
Traces == JsonDeserialize(IOEnv.TRACE_FILE)
T == Traces[tid]
TInit == tid \in 1..Len(Traces) /\ cfg = T.cfg /\ answer = T.answer
TNext == FALSE /\ UNCHANGED <<vars, tid>>
Export == PrintT(ToJson([cfg |-> cfg]))
Report == PrintT(ToJson([id |-> T.id, refine |-> IF T.answer = Algo(T.cfg) THEN "ok" ELSE "drift", expected |-> Algo(T.cfg),
                          failed |-> {n \in {"UpToDateExactly", "OnlyKnownAnswers"} :
                                        IF n = "UpToDateExactly" THEN ~UpToDateExactly(T.cfg, T.answer) ELSE ~OnlyKnownAnswers(T.cfg, T.answer)}]))
====
