---- MODULE MC_V1V2 ----
EXTENDS V1V2, Json
Export == (sc # <<>>) => PrintT(ToJson(sc))
====
