----------------------------- MODULE AtomicWrite -----------------------------
(* FileWriter.putData / PyFileWriter.putData (pysmi/writer/localfile.py,      *)
(* pyfile.py) as sequences of system calls (C13).  One action per call of    *)
(* os / tempfile / py_compile; every call may be hit by the writer's single  *)
(* fault (error return; short write).  One or two writers store the SAME     *)
(* module name into the same directory and interleave freely: mkstemp gives  *)
(* each its own temporary file, rename() is the atomic publication step.     *)
EXTENDS Naturals, Sequences, FiniteSets, TLC

CONSTANTS Writers,       \* e.g. {"w1"} or {"w1", "w2"}
          Kind,          \* "file" (FileWriter) | "py" (PyFileWriter with byte compilation)
          DestInits,     \* subset of {"absent", "old"}: destination before the call
          DryRuns,       \* subset of BOOLEAN
          Dev_ShortWriteIgnored,  \* named deviation: os.write() result ignored (FALSE = intended)
          Dev_UnlinkRace          \* named deviation: unlink of an already removed module lets the raw OSError escape

VARIABLES pc,            \* per writer: next system call / final state
          fault,         \* per writer: [s |-> step, k |-> "none" | "error" | "short"]
          dry,           \* dryRun flag of the call (same for all writers)
          dirExists,
          dest,          \* [k |-> "absent" | "old" | "new" | "partial", w |-> owner]
          dest0,
          temps,         \* per writer: "none" | "empty" | "partial" | "full"
          pyc,           \* byte-compiled file present (py kind)
          cls,           \* per writer: exception class when raised
          hist           \* sequence of <<writer, call, result>>
vars == <<pc, fault, dry, dirExists, dest, dest0, temps, pyc, cls, hist>>

D(k, w) == [k |-> k, w |-> w]
NoW == "-"
Steps == {"makedirs", "mkstemp", "write", "close", "rename"} \cup (IF Kind = "py" THEN {"pycompile"} ELSE {})
Faults == {[s |-> "none", k |-> "none"]} \cup {[s |-> s, k |-> "error"] : s \in Steps} \cup {[s |-> "write", k |-> "short"]}

Init ==
  /\ pc = [w \in Writers |-> "start"]
  /\ fault \in [Writers -> Faults]
  /\ dry \in DryRuns
  /\ dest0 \in DestInits
  /\ dirExists \in (IF dest0 = "old" THEN {TRUE} ELSE BOOLEAN)
  /\ dest = D(dest0, NoW)
  /\ temps = [w \in Writers |-> "none"]
  /\ pyc = FALSE
  /\ cls = [w \in Writers |-> "-"]
  /\ hist = <<>>

F(w, s, k) == fault[w].s = s /\ fault[w].k = k
H(w, c, r) == hist' = Append(hist, <<w, c, r>>)
Go(w, next) == pc' = [pc EXCEPT ![w] = next]
Raise(w) == pc' = [pc EXCEPT ![w] = "raised"] /\ cls' = [cls EXCEPT ![w] = "PySmiWriterError"]

Start(w) ==     \* dry run: return before any system call
  /\ pc[w] = "start"
  /\ IF dry THEN Go(w, "returned") ELSE Go(w, "exists")
  /\ UNCHANGED <<fault, dry, dirExists, dest, dest0, temps, pyc, cls, hist>>
Exists(w) ==
  /\ pc[w] = "exists" /\ Go(w, IF dirExists THEN "mkstemp" ELSE "makedirs")
  /\ H(w, "exists", IF dirExists THEN "T" ELSE "F")
  /\ UNCHANGED <<fault, dry, dirExists, dest, dest0, temps, pyc, cls>>
Makedirs(w) ==
  /\ pc[w] = "makedirs"
  /\ IF F(w, "makedirs", "error") \/ dirExists     \* EEXIST when the other writer was faster is an OSError too
     THEN Raise(w) /\ dirExists' = dirExists /\ H(w, "makedirs", "err")
     ELSE Go(w, "mkstemp") /\ cls' = cls /\ dirExists' = TRUE /\ H(w, "makedirs", "ok")
  /\ UNCHANGED <<fault, dry, dest, dest0, temps, pyc>>
Mkstemp(w) ==
  /\ pc[w] = "mkstemp"
  /\ IF F(w, "mkstemp", "error") \/ ~dirExists
     THEN Raise(w) /\ temps' = temps /\ H(w, "mkstemp", "err")
     ELSE Go(w, "write") /\ cls' = cls /\ temps' = [temps EXCEPT ![w] = "empty"] /\ H(w, "mkstemp", "ok")
  /\ UNCHANGED <<fault, dry, dirExists, dest, dest0, pyc>>
Write(w) ==
  /\ pc[w] = "write"
  /\ IF F(w, "write", "error")
     THEN Go(w, "cleanup") /\ temps' = temps /\ H(w, "write", "err")
     ELSE IF F(w, "write", "short")
          THEN /\ temps' = [temps EXCEPT ![w] = "partial"] /\ H(w, "write", "short")
               /\ Go(w, IF Dev_ShortWriteIgnored THEN "close" ELSE "write2")
          ELSE Go(w, "close") /\ temps' = [temps EXCEPT ![w] = "full"] /\ H(w, "write", "ok")
  /\ UNCHANGED <<fault, dry, dirExists, dest, dest0, pyc, cls>>
Write2(w) ==    \* the rest of the data after a short write
  /\ pc[w] = "write2" /\ Go(w, "close") /\ temps' = [temps EXCEPT ![w] = "full"] /\ H(w, "write", "ok")
  /\ UNCHANGED <<fault, dry, dirExists, dest, dest0, pyc, cls>>
Close(w) ==
  /\ pc[w] = "close"
  /\ IF F(w, "close", "error") THEN Go(w, "cleanup") /\ H(w, "close", "err")
     ELSE Go(w, "rename") /\ H(w, "close", "ok")
  /\ UNCHANGED <<fault, dry, dirExists, dest, dest0, temps, pyc, cls>>
Rename(w) ==
  /\ pc[w] = "rename"
  /\ IF F(w, "rename", "error")
     THEN Go(w, "cleanup") /\ UNCHANGED <<dest, temps, cls>> /\ H(w, "rename", "err")
     ELSE /\ dest' = D(IF temps[w] = "full" THEN "new" ELSE "partial", w)
          /\ temps' = [temps EXCEPT ![w] = "none"] /\ H(w, "rename", "ok") /\ cls' = cls
          /\ Go(w, IF Kind = "py" THEN "pycompile" ELSE "returned")
  /\ UNCHANGED <<fault, dry, dirExists, dest0, pyc>>
\* error path: PyFileWriter asks os.access() first, FileWriter unlinks right away (modelled as one step)
Cleanup(w) ==
  /\ pc[w] = "cleanup" /\ temps' = [temps EXCEPT ![w] = "none"] /\ Raise(w)
  /\ H(w, "unlink", "ok")
  /\ UNCHANGED <<fault, dry, dirExists, dest, dest0, pyc>>
PyCompile(w) ==
  /\ pc[w] = "pycompile"
  /\ IF F(w, "pycompile", "error") \/ dest.k = "absent"
     THEN Go(w, "pyaccess") /\ pyc' = pyc /\ H(w, "pycompile", "err")
     ELSE Go(w, "returned") /\ pyc' = TRUE /\ H(w, "pycompile", "ok")
  /\ UNCHANGED <<fault, dry, dirExists, dest, dest0, temps, cls>>
\* a failed byte compilation removes the stored module (whoever stored it last): os.access() then os.unlink(),
\* two separate calls - another writer may remove the file in between
PyAccess(w) ==
  /\ pc[w] = "pyaccess"
  /\ IF dest.k = "absent" THEN Raise(w) /\ H(w, "access", "F")
     ELSE Go(w, "pyunlink") /\ cls' = cls /\ H(w, "access", "T")
  /\ UNCHANGED <<fault, dry, dirExists, dest, dest0, temps, pyc>>
PyUnlink(w) ==
  /\ pc[w] = "pyunlink"
  /\ IF dest.k = "absent"
     THEN /\ dest' = dest /\ H(w, "unlink", "err")
          /\ pc' = [pc EXCEPT ![w] = "raised"]
          /\ cls' = [cls EXCEPT ![w] = IF Dev_UnlinkRace THEN "FileNotFoundError" ELSE "PySmiWriterError"]
     ELSE dest' = D("absent", NoW) /\ H(w, "unlink", "ok") /\ Raise(w)
  /\ UNCHANGED <<fault, dry, dirExists, dest0, temps, pyc>>

Step(w) == Start(w) \/ Exists(w) \/ Makedirs(w) \/ Mkstemp(w) \/ Write(w) \/ Write2(w) \/ Close(w) \/ Rename(w)
           \/ Cleanup(w) \/ PyCompile(w) \/ PyAccess(w) \/ PyUnlink(w)
Next == \E w \in Writers : Step(w)
Spec == Init /\ [][Next]_vars /\ WF_vars(Next)

\* ------------------------------------------------------------ properties (C13)
Final(w) == pc[w] \in {"returned", "raised"}
AllFinal == \A w \in Writers : Final(w)
CompileFaulty == \E v \in Writers : fault[v].s = "pycompile"
\* in EVERY state (hence at every crash point) the destination is absent, the old or a complete new text
NeverPartial == dest.k \in {"absent", "old", "new"}
NoTempLeft == \A w \in Writers : Final(w) => temps[w] = "none"
RaisedIsWriterError == \A w \in Writers : pc[w] = "raised" => cls[w] = "PySmiWriterError"
\* at the moment a writer returns normally the full new text is stored under the module's name
ReturnStep(w) == pc[w] # "returned" /\ pc'[w] = "returned"
ReturnedMeansStored == [][\A w \in Writers : (ReturnStep(w) /\ ~dry) => dest'.k = "new"]_vars
\* a writer that failed leaves the previous content or somebody's complete new content; only a failed
\* byte compilation may have removed the module
RaisedKeeps == AllFinal =>
   \/ dest.k = "new" \/ dest = D(dest0, NoW)
   \/ (dest.k = "absent" /\ Kind = "py" /\ \E v \in Writers : \E i \in DOMAIN hist : hist[i] = <<v, "pycompile", "err">>)
\* a failed I/O step of putData() (directory creation, temporary file, write, close, rename) surfaces: that writer
\* ends by raising - it never swallows the failure and returns normally
IoSteps == {"makedirs", "mkstemp", "write", "close", "rename"}
FailureSurfaces == \A w \in Writers : (Final(w) /\ \E i \in DOMAIN hist : hist[i][1] = w /\ hist[i][2] \in IoSteps /\ hist[i][3] = "err")
                                        => pc[w] = "raised"
DryRunInert == dry => (hist = <<>> /\ dest = D(dest0, NoW) /\ \A w \in Writers : temps[w] = "none")
Termination == <>AllFinal
=============================================================================
