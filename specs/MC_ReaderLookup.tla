---- MODULE MC_ReaderLookup ----
EXTENDS ReaderLookup, Json
\* request names (character sequences)
N1 == <<"F","O","O","-","M","I","B">>          \* FOO-MIB
N2 == <<"F","o","o","-","M","i","b">>          \* Foo-Mib   (mixed case)
N3 == <<"b","a","r">>                          \* bar       (no suffix)
N4 == <<"Q","U","X","-","M","I","B","S">>      \* QUX-MIBS  (-MIB in the middle, not a suffix)
N5 == <<"A","-","M","I","B","-","E","X","T">>  \* A-MIB-EXT
Reqs == {N1, N2, N3, N4, N5}
Txt == Dot(<<"t","x","t">>)
MibL == Dot(<<"m","i","b">>)
MyU == Dot(<<"M","Y">>)
All == [orig |-> TRUE, up |-> TRUE, low |-> TRUE, fuzzy |-> TRUE]
FirstMib(n) == \* what is left of the name before the first "-mib" (any case), or the name itself
  LET l == Lower(n)
      ps == {i \in 1..Len(n) : i + 3 <= Len(n) /\ SubSeq(l, i, i + 3) = DashMib}
  IN IF ps = {} THEN n ELSE SubSeq(n, 1, (CHOOSE i \in ps : \A j \in ps : i <= j) - 1)
\* candidate entry names around a request: genuine variants and near misses
Universe(n) ==
  {n, Upper(n), Lower(n), n \o Txt, Lower(n) \o MibL, Upper(n) \o MyU}
  \cup (IF EndsWith(Lower(n), DashMib) THEN {Chop(n, 4), Lower(Chop(n, 4)) \o Txt}
        ELSE {Upper(n \o DashMib), Lower(n \o DashMib) \o Txt, n \o DashMib})
  \cup {n \o <<"S">>, <<"X">> \o n, n \o Dot(<<"j","s","o","n">>), n \o Dot(<<"p","y">>), Upper(n) \o Dot(<<"p","y">>),
        FirstMib(n), Upper(FirstMib(n)) \o Txt}
Entry(nm, lv, k, c) == [name |-> nm, level |-> lv, kind |-> k, cid |-> c, mt |-> 0]
EntriesOf(n) == {Entry(nm, lv, "file", 1 + (lv % 3)) : nm \in Universe(n), lv \in 1..3} \cup {Entry(nm, lv, "dir", 0) : nm \in {n, Lower(n) \o MibL}, lv \in 1..2}
OptSets == {All, [All EXCEPT !.orig = FALSE], [All EXCEPT !.up = FALSE], [All EXCEPT !.low = FALSE], [All EXCEPT !.fuzzy = FALSE],
            [orig |-> TRUE, up |-> FALSE, low |-> FALSE, fuzzy |-> FALSE]}
Sc(n, o, x, ix, rec) == [req |-> n, opts |-> o, exts |-> x, index |-> ix, recursive |-> rec, entries |-> {}]
\* slice A: reader extensions, every option set, no index
StartsA == {Sc(n, o, "reader", <<>>, TRUE) : n \in Reqs, o \in OptSets}
\* slice B: index mappings (existing / missing target), non-recursive readers, borrower extension families
StartsB == UNION {{Sc(n, All, "reader", ix, TRUE) : ix \in {n \o <<"S">>, <<"X">> \o n}} : n \in {N1, N3}}
           \cup {Sc(N1, All, "reader", <<>>, FALSE)}
           \cup {Sc(n, All, x, <<>>, TRUE) : n \in {N1, N2}, x \in {"py", "json"}}
SetAsSeq(S) == CHOOSE s \in [1..Cardinality(S) -> S] : \A x \in S : \E i \in DOMAIN s : s[i] = x

ExportAll == (res # NoRes) => PrintT(ToJson([sc |-> [sc EXCEPT !.entries = SetAsSeq(sc.entries)]]))
====
