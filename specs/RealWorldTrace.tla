--------------------------- MODULE RealWorldTrace ---------------------------
(* Second validation of the real-components traces (checks/realworld.py).     *)
(* MibCompileTrace feeds the specification with the answers the components     *)
(* GAVE; this module feeds it with the answers they SHOULD give according to   *)
(* what is on disk (EnvOf(world) of MibDump) and compares call log and result  *)
(* with the observation.  It also evaluates, on the observation, the ground-   *)
(* truth formulas that tie component answers to the disk:                      *)
(*   SourceTruth  (C08 "the first source that HOLDS a module"): a source says  *)
(*                "not found" exactly when its directory holds no file for the *)
(*                name, and a parse fails exactly when the file is broken;     *)
(*   SearcherTruth (C10): a searcher says "up to date" exactly when the world  *)
(*                says so; BorrowerTruth (C19): a borrower lends exactly when  *)
(*                its directory holds the file.                                *)
EXTENDS MC_MibDump, IOUtils, TLCExt
VARIABLE tid
Traces == JsonDeserialize(IOEnv.TRACE_FILE)
T == Traces[tid]
OL == T.log
ProcOf(ps) == LET names == {ps[i].name : i \in DOMAIN ps} IN
              [m \in names |-> [st |-> ps[CHOOSE i \in DOMAIN ps : ps[i].name = m].st, err |-> ps[CHOOSE i \in DOMAIN ps : ps[i].name = m].err]]
OP == ProcOf(T.proc)

TInit == /\ tid \in 1..Len(Traces) /\ DInitW(Traces[tid].w)
TNext == DNext /\ UNCHANGED tid

Want(k) == EnvOf(w)[k].r
IdxOf(kind) == {i \in DOMAIN OL : OL[i].ev = kind}
SourceTruth ==
  /\ \A i \in IdxOf("get") : (OL[i].ans = "nf") = (Want(<<"src", OL[i].idx, OL[i].name>>) = "nf")
  /\ \A i \in IdxOf("parse") : (OL[i].ans = "ok") = (Want(<<"src", OL[i].idx, OL[i].name>>) = "ok")
\* a "sea" event belongs to the borrowed phase when a successful "bor" for that name precedes it
Phase(i) == IF \E j \in 1..(i - 1) : OL[j].ev = "bor" /\ OL[j].name = OL[i].name /\ OL[j].ans = "ok" THEN "bsea" ELSE "sea"
SearcherTruth == \A i \in IdxOf("sea") : OL[i].ans = Want(<<Phase(i), OL[i].idx, OL[i].name>>)
BorrowerTruth == \A i \in IdxOf("bor") : OL[i].ans = Want(<<"bor", OL[i].idx, OL[i].name>>)
WriterTruth == \A i \in IdxOf("put") : OL[i].ans = Want(<<"put", 0, OL[i].name>>)
Failed == {n \in {"SourceTruth", "SearcherTruth", "BorrowerTruth", "WriterTruth"} :
             CASE n = "SourceTruth" -> ~SourceTruth [] n = "SearcherTruth" -> ~SearcherTruth
               [] n = "BorrowerTruth" -> ~BorrowerTruth [] OTHER -> ~WriterTruth}

RECURSIVE FirstDiff(_, _, _)
FirstDiff(a, b, i) == IF i > Len(a) \/ i > Len(b) THEN (IF Len(a) = Len(b) THEN 0 ELSE i)
                      ELSE IF a[i] = b[i] THEN FirstDiff(a, b, i + 1) ELSE i
Brief(e) == <<e.ev, e.idx, e.name, e.ans>>
At(s, i) == IF i \in DOMAIN s THEN Brief(s[i]) ELSE <<"end", 0, "-", "-">>
Report == (ended # "no" /\ dpc = "compile") =>
   LET d == FirstDiff(log, OL, 1)
       procOk == T.ended = "return" /\ DOMAIN proc = DOMAIN OP /\ \A m \in DOMAIN proc : proc[m].st = OP[m].st
   IN PrintT(ToJson([id |-> T.id, refine |-> IF d = 0 /\ procOk THEN "ok" ELSE "drift", at |-> d,
                     expected |-> At(log, d), got |-> At(OL, d), procOk |-> procOk, failed |-> Failed]))
=============================================================================
