---- MODULE DeclsTrace ----
(* C03 monitor: the observed JSON document (as a list of entries) against ExpectedDoc. *)
EXTENDS Decls, Json, IOUtils, TLCExt
VARIABLE tid
Traces == JsonDeserialize(IOEnv.TRACE_FILE)
T == Traces[tid]
TInit == tid \in 1..Len(Traces) /\ decls = [i \in DOMAIN T.decls |-> [id |-> T.decls[i].id, kind |-> T.decls[i].kind, status |-> T.decls[i].status,
            access |-> T.decls[i].access, units |-> T.decls[i].units, revs |-> T.decls[i].revs, parent |-> T.decls[i].parent]]
TNext == FALSE /\ UNCHANGED <<vars, tid>>
SetOf(s) == {s[i] : i \in DOMAIN s}
\* customary name mapping: hyphens become underscores; a Python keyword may additionally be prefixed (both backends share keys)
Und(n) == [i \in DOMAIN n |-> IF n[i] = "-" THEN "_" ELSE n[i]]
Pfx == <<"p","y","s","m","i","_">>
Keys(n) == {Und(n), Pfx \o Und(n)}
NameOf(i) == T.decls[i].name
E == T.obs.entries
EntryFor(i) == {j \in DOMAIN E : E[j].key \in Keys(NameOf(i))}
WellFormed == T.obs.wellformed
Compiled == T.obs.status = "compiled"
ExactlyDeclared == Compiled =>
   /\ T.obs.dups = <<>>
   /\ \A i \in DOMAIN decls : Cardinality(EntryFor(i)) = 1
   /\ \A j \in DOMAIN E : (E[j].key \in {<<"i","m","p","o","r","t","s">>, <<"m","e","t","a">>}) \/ (\E i \in DOMAIN decls : j \in EntryFor(i))
RecordMatches == Compiled => \A i \in DOMAIN decls : \A j \in EntryFor(i) :
   LET x == Expected(decls[i]) IN
   /\ E[j].cls = x.cls /\ E[j].nodetype = x.nodetype /\ E[j].status = x.status /\ E[j].access = x.access
   /\ E[j].units = x.units /\ E[j].revs = x.revs
NoCrossWiring == Compiled => \A j \in DOMAIN E : (E[j].name # <<>>) => Und(E[j].name) = E[j].key
Checks == << <<"Compiles", Compiled>>, <<"WellFormed", WellFormed>>, <<"ExactlyDeclared", ExactlyDeclared>>, <<"RecordMatches", RecordMatches>>,
             <<"NoCrossWiring", NoCrossWiring>> >>
Report == PrintT(ToJson([id |-> T.id, failed |-> {Checks[i][1] : i \in {j \in DOMAIN Checks : ~Checks[j][2]}}]))
====
