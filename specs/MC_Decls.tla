---- MODULE MC_Decls ----
EXTENDS Decls, Json
KAll == AllKinds
St3 == {"current", "deprecated", "obsolete"}
St1 == {"current"}
Ac5 == {"read-only", "read-write", "read-create", "not-accessible", "accessible-for-notify"}
Ac2 == {"read-only", "read-create"}
Revs == {<<>>, <<"R1">>, <<"R2short", "R1">>, <<"R68short">>}
Revs1 == {<<>>, <<"R2short", "R1">>}
Export == (Len(decls) >= 1 /\ Legal) => PrintT(ToJson([decls |-> decls]))
====
