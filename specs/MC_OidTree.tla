---- MODULE MC_OidTree ----
EXTENDS OidTree, Json
A(l, n) == [lab |-> l, n |-> n]
Arcs2 == {<<A(FALSE, 1)>>, <<A(TRUE, 48), A(FALSE, 4)>>}
Arcs4 == {<<A(FALSE, 1)>>, <<A(TRUE, 2)>>, <<A(FALSE, 0), A(FALSE, 7)>>, <<A(TRUE, 3), A(FALSE, 481)>>}
Arcs1 == {<<A(FALSE, 5)>>}
KStruct == {"value", "scalar"}
KAll == AllKinds \ {"table", "row", "column"}
KTab == {"table", "row", "column", "value"}
RAll == {"iso", "num", "isonum", "base"}
RTwo == {"iso", "base"}
NodesJ == [i \in DOMAIN nodes |-> [mod |-> nodes[i].mod, root |-> nodes[i].root, parent |-> nodes[i].parent, arcs |-> nodes[i].arcs,
                                   kind |-> nodes[i].kind, gt |-> GT(i)]]
Export == (Len(nodes) >= 1 /\ Legal) => PrintT(ToJson([nodes |-> NodesJ, decl |-> decl]))
====
