---- MODULE MC_Refs ----
EXTENDS Refs, Json
Export == (aspect # "-") => PrintT(ToJson([aspect |-> aspect, sc |-> sc]))
====
