-------------------------------- MODULE V1V2 --------------------------------
(* C16: an SMIv1 module and its mechanical SMIv2 transliteration.             *)
(* A scenario is an abstract module: scalars / a table / a trap with SMIv1    *)
(* types, ACCESS and STATUS values, imported from the SMIv1 base modules.     *)
(* The transliteration rules (what the SMIv2 text says instead) are defined   *)
(* here; the monitor compares what the two texts compile to.                  *)
EXTENDS Naturals, Sequences, FiniteSets, TLC

V1Types == {"INTEGER", "Counter", "Gauge", "NetworkAddress", "IpAddress", "TimeTicks", "OCTET STRING", "Opaque", "DisplayString", "OBJECT IDENTIFIER"}
\* SMIv2 spelling of the type in the transliterated text
V2Type(t) == CASE t = "INTEGER" -> "Integer32" [] t = "Counter" -> "Counter32" [] t = "Gauge" -> "Gauge32"
               [] t = "NetworkAddress" -> "IpAddress" [] OTHER -> t
\* the pysnmp class both texts must end up with
V2Class(t) == CASE t = "OCTET STRING" -> "OctetString" [] t = "OBJECT IDENTIFIER" -> "ObjectIdentifier" [] OTHER -> V2Type(t)
V1Access == {"read-only", "read-write", "write-only", "not-accessible"}
V1Status == {"mandatory", "optional", "obsolete", "deprecated"}
V2Status(s) == CASE s = "mandatory" -> "current" [] s = "optional" -> "obsolete" [] OTHER -> s
V1Homes == {"RFC1155-SMI", "RFC1065-SMI"}

VARIABLES sc
vars == <<sc>>
\* defval: the object carries a DEFVAL clause (a literal of its type's notation) - the default is resolved through the
\* object's type, so the SMIv1 type names (Counter, Gauge, NetworkAddress) must lead to the same base type as their SMIv2 names
Obj(t, a, s, d) == [type |-> t, access |-> a, status |-> s, defval |-> d]
Init == sc = <<>>
Objs1 == {<<Obj(t, a, s, d)>> : t \in V1Types, a \in V1Access, s \in V1Status, d \in BOOLEAN}
Objs2 == {<<Obj(t, a, s, FALSE), Obj(u, "read-only", "mandatory", d)>> : t \in V1Types, a \in V1Access, s \in V1Status, u \in V1Types, d \in BOOLEAN}
Choose == \E os \in Objs1 \cup Objs2 :
          \E ez \in BOOLEAN : \E tb \in BOOLEAN, tv \in 0..2, home \in V1Homes, idx \in {"INTEGER", "IpAddress", "DisplayString", "TYPE:INTEGER"} :     \* TYPE:x = RFC 1212 index given as a type, INDEX { INTEGER }
             sc' = [entzero |-> ez, objs |-> os, table |-> tb, trapvars |-> tv, home |-> home, idxtype |-> idx]
Next == sc = <<>> /\ Choose
Spec == Init /\ [][Next]_vars
=============================================================================
