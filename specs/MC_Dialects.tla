---- MODULE MC_Dialects ----
EXTENDS Dialects, Json
RECURSIVE SetSeq(_)
SetSeq(X) == IF X = {} THEN <<>> ELSE LET x == CHOOSE y \in X : TRUE IN <<x>> \o SetSeq(X \ {x})
Export == (what # None) => PrintT(ToJson(
   CASE what.k = "edit" -> [k |-> "edit", S |-> SetSeq(S), opt |-> what.e.opt, host |-> what.e.host, find |-> what.e.find, repl |-> what.e.repl,
                            toks |-> Broken(what.e), hosttoks |-> FileToks(what.e.host)]
     [] what.k = "writable" -> [k |-> "writable", S |-> SetSeq(S), opt |-> what.w.opt, host |-> what.w.host, needs |-> SetSeq(what.w.needs),
                                rejectedWithout |-> what.w.rejectedWithout, toks |-> FileToks(what.w.host)]
     [] what.k = "step" -> [k |-> "step", S |-> SetSeq(S), o |-> what.o, reserved |-> SetSeq(NewlyReserved(what.o))]))
====
