-------------------------- MODULE MibCompileProps --------------------------
(* Property formulas of MibCompiler.compile() (C07 C08 C09 C10a C19a), written *)
(* over OBSERVATIONS only: the sequence of component calls `log`, the request *)
(* `req`, the options record `o`, the returned map `proc` and `ended`.        *)
(* The same text is evaluated (a) as invariants of the specification          *)
(* MibCompile and (b) by MibCompileTrace on what the real code did.           *)
EXTENDS Naturals, Sequences, FiniteSets

Status == {"compiled", "untouched", "failed", "unprocessed", "missing", "borrowed"}

NoText == <<"-", 0, "-">>
NoErr  == <<"none", 0, "-">>

\* One uniform event record (TLC cannot compare records with strings etc.)
\*  ev    : "get" | "parse" | "sym" | "sea" | "gen" | "bor" | "put"
\*  idx   : index of the source / searcher / borrower (0 for singletons)
\*  name  : the name the component was asked about (module name for sym/gen/put)
\*  file  : for parse/sym - the requested file name whose text is processed
\*  ans   : the component's answer
\*  text  : opaque identity of a text handed over  <<kind, idx, name>>
\*  flag  : the boolean option passed along (rebuild / genTexts / dryRun)
\*  mtime : the time stamp passed to a searcher
\*  imp   : for sym - the module's imports (sequence of names)
\*  mods  : for parse - names of the modules the text holds
Ev(ev, idx, name, file, ans, text, flag, mtime, imp, mods) ==
  [ev |-> ev, idx |-> idx, name |-> name, file |-> file, ans |-> ans, text |-> text,
   flag |-> flag, mtime |-> mtime, imp |-> imp, mods |-> mods]

Rng(s) == {s[i] : i \in DOMAIN s}
Idx(log, k) == {i \in DOMAIN log : log[i].ev = k}

\* ---------------------------------------------------------------- helpers
\* modules of file f that passed parsing and pass 1 (symbol table)
Yielded(log, f) == {log[i].name : i \in {j \in Idx(log, "sym") : log[j].file = f /\ log[j].ans = "ok"}}
\* names imported by accepted modules
Imported(log) == UNION {Rng(log[i].imp) : i \in {j \in Idx(log, "sym") : log[j].ans = "ok"}}
PutOk(log, m)  == \E i \in Idx(log, "put") : log[i].name = m /\ log[i].ans = "ok"
PutAny(log, m) == \E i \in Idx(log, "put") : log[i].name = m
WriterFailed(log, m) == \E i \in Idx(log, "put") : log[i].name = m /\ log[i].ans = "err"
GenOk(log, m)  == \E i \in Idx(log, "gen") : log[i].name = m /\ log[i].ans = "ok"
St(proc, m) == IF m \in DOMAIN proc THEN proc[m].st ELSE "absent"
AccountedName(log, proc, n) ==
  IF Yielded(log, n) # {} THEN Yielded(log, n) \subseteq DOMAIN proc ELSE n \in DOMAIN proc
Requested(req, log, m) == \E i \in DOMAIN req : m \in Yielded(log, req[i]) \/ m = req[i]
\* failure events that concern module / file m
FailureIds(log, m) ==
     {<<"src", log[i].idx, m>> : i \in {j \in Idx(log, "get") : log[j].name = m /\ log[j].ans = "err"}}
  \cup {<<"src", log[i].idx, m>> : i \in {j \in Idx(log, "parse") : log[j].name = m /\ (log[j].ans # "ok" \/ Len(log[j].mods) = 0)}}
  \cup {<<"src", log[i].idx, m>> : i \in {j \in Idx(log, "sym") : log[j].file = m /\ log[j].ans # "ok"}}
  \cup {<<"gen", 0, m>> : i \in {j \in Idx(log, "gen") : log[j].name = m /\ log[j].ans # "ok"}}
  \cup {<<"put", 0, m>> : i \in {j \in Idx(log, "put") : log[j].name = m /\ log[j].ans # "ok"}}

\* the parse event p delivered a copy all of whose modules passed pass 1
AcceptedParse(log, p) ==
   /\ log[p].ans = "ok" /\ Len(log[p].mods) > 0
   /\ \A q \in DOMAIN log[p].mods : \E k \in Idx(log, "sym") :
          log[k].idx = log[p].idx /\ log[k].file = log[p].name /\ log[k].name = log[p].mods[q] /\ log[k].ans = "ok"

\* ------------------------------------------------------------------- C07
NoRaise(ended) == ended # "raise"
\* C08: the call ends (an observed run that had to be cut off after a runaway number of component calls has ended = "runaway")
Terminates(ended) == ended # "runaway"
OneOfSix(proc, ended) == ended = "return" => \A m \in DOMAIN proc : proc[m].st \in Status
Accounted(req, log, proc, ended) == ended = "return" =>
   /\ \A i \in DOMAIN req : AccountedName(log, proc, req[i])
   /\ \A n \in Imported(log) : AccountedName(log, proc, n)
PutAtMostOnce(log) == \A i, j \in Idx(log, "put") : log[i].name = log[j].name => i = j
StatusMatchesEffect(log, proc, o, ended) == (ended = "return" /\ o.writeMibs) =>
   \A m \in DOMAIN proc \cup {log[i].name : i \in Idx(log, "put")} :
       (St(proc, m) \in {"compiled", "borrowed"}) <=> PutOk(log, m)
TextIsGenerated(log) == \A i \in Idx(log, "put") :
   \/ \E j \in Idx(log, "gen") : j < i /\ log[j].name = log[i].name /\ log[j].ans = "ok" /\ log[j].text = log[i].text
   \/ \E j \in Idx(log, "bor") : j < i /\ log[j].name = log[i].name /\ log[j].ans = "ok" /\ log[j].text = log[i].text
FailedCarriesError(log, proc, ended) == ended = "return" =>
   \A m \in DOMAIN proc : proc[m].st = "failed" => proc[m].err \in FailureIds(log, m)
\* the option values handed to components are the caller's
OptionsPassed(log, o) ==
   /\ \A i \in Idx(log, "sea") : log[i].flag = o.rebuild
   /\ \A i \in Idx(log, "gen") : log[i].flag = o.genTexts
   /\ \A i \in Idx(log, "put") : log[i].flag = o.dryRun

\* ------------------------------------------------------------------- C08
FetchAtMostOnce(log) ==
   /\ \A i, j \in Idx(log, "get") : (log[i].idx = log[j].idx /\ log[i].name = log[j].name) => i = j
   /\ \A i, j \in Idx(log, "parse") : (log[i].idx = log[j].idx /\ log[i].name = log[j].name) => i = j
   \* every delivered text is parsed exactly once
   /\ \A i \in Idx(log, "get") : log[i].ans = "data" =>
         \E j \in Idx(log, "parse") : j > i /\ log[j].idx = log[i].idx /\ log[j].name = log[i].name
   \* at most one copy of a file is accepted (all of its modules passed)
   /\ \A i, j \in Idx(log, "parse") :
         (log[i].name = log[j].name /\ AcceptedParse(log, i) /\ AcceptedParse(log, j)) => i = j
\* module names are fetched under that name at most once even when requested/imported repeatedly
SourceOrder(log) == \A i \in Idx(log, "get") :
   \* sources are consulted 1, 2, 3 ... for each name
   /\ log[i].idx > 1 => \E j \in Idx(log, "get") : j < i /\ log[j].name = log[i].name /\ log[j].idx = log[i].idx - 1
   \* and nothing is consulted after a copy that was accepted completely
   /\ \A j \in Idx(log, "get") : (j < i /\ log[j].name = log[i].name /\ log[j].idx < log[i].idx) =>
        ~ \E p \in Idx(log, "parse") : log[p].idx = log[j].idx /\ log[p].name = log[j].name /\ AcceptedParse(log, p)
\* the tree that is compiled for m (gen.idx = source it was read from) is the latest accepted copy of m
CompiledFromAccepted(log) == \A g \in Idx(log, "gen") :
   \E s \in Idx(log, "sym") : /\ s < g /\ log[s].name = log[g].name /\ log[s].ans = "ok" /\ log[s].idx = log[g].idx
                               /\ ~\E t \in Idx(log, "sym") : t > s /\ log[t].name = log[g].name /\ log[t].ans = "ok"
Closure(req, log, proc, ended) == Accounted(req, log, proc, ended)

\* ------------------------------------------------------------------- C09
Bad(log, proc) == \E m \in DOMAIN proc : proc[m].st \in {"failed", "missing"} /\ ~WriterFailed(log, m)
Clean(log, proc) ==
   /\ \A m \in DOMAIN proc : proc[m].st \notin {"failed", "missing"}
   /\ \A i \in DOMAIN log : (log[i].ans \notin {"err", "parseerr", "lexerr", "symerr"})
   /\ \A i \in DOMAIN log : (log[i].ev = "parse" => Len(log[i].mods) > 0)
   /\ \A i \in Idx(log, "get") : \E j \in Idx(log, "get") : log[j].name = log[i].name /\ log[j].ans = "data"
\* ground truth from the call log (not from the reported statuses): a name that no source delivered an acceptable
\* copy of (and that is not a module some other file supplied), or a module whose code generation failed ...
NamesIn(log) == {log[i].name : i \in DOMAIN log}
SrcFailed(log, n) == /\ \E i \in Idx(log, "get") : log[i].name = n
                     /\ ~\E p \in Idx(log, "parse") : log[p].name = n /\ AcceptedParse(log, p)
                     /\ ~\E s \in Idx(log, "sym") : log[s].name = n /\ log[s].ans = "ok"
GenFailed(log, n) == \E g \in Idx(log, "gen") : log[g].name = n /\ log[g].ans # "ok"
Lent(log, n) == \E b \in Idx(log, "bor") : log[b].name = n /\ log[b].ans = "ok"
\* ... and that no borrower supplied: it "cannot be found, parsed or code-generated and cannot be borrowed"
Unresolved(log) == {n \in NamesIn(log) : (SrcFailed(log, n) \/ GenFailed(log, n)) /\ ~Lent(log, n)}
\* the bad ones keep their failed / missing status (whatever ignoreErrors says)
BadKeepStatus(log, proc, ended) == ended = "return" => \A n \in Unresolved(log) : St(proc, n) \in {"failed", "missing"}
AllOrNothing(log, proc, o, ended) == ended = "return" =>
   /\ (Unresolved(log) # {} /\ ~o.ignoreErrors) => Idx(log, "put") = {}
   /\ (Bad(log, proc) /\ ~o.ignoreErrors) =>
         /\ Idx(log, "put") = {}
         /\ \A i \in Idx(log, "gen") : log[i].ans = "ok" => St(proc, log[i].name) \in {"unprocessed"}
         /\ \A i \in Idx(log, "bor") : log[i].ans = "ok" => St(proc, log[i].name) \in {"unprocessed", "untouched"}
   /\ (o.ignoreErrors /\ o.writeMibs) =>
         \A i \in Idx(log, "gen") : log[i].ans = "ok" => PutAny(log, log[i].name)
   \* converse, only for runs without any failure at all (the statement does not promise more)
   /\ (Clean(log, proc) /\ o.writeMibs) =>
         \A i \in Idx(log, "gen") : log[i].ans = "ok" => PutAny(log, log[i].name)

\* ------------------------------------------------------------------ C10a
FreshMeansUntouched(req, log, proc, o, ended) == ended = "return" =>
   /\ \A m \in DOMAIN proc : (proc[m].st = "untouched" /\ ~(o.noDeps /\ ~Requested(req, log, m))) =>
         /\ \E i \in Idx(log, "sea") : log[i].name = m /\ log[i].ans = "fresh"
         /\ ~PutAny(log, m)
   \* a "fresh" answer is honoured, with or without rebuild (stubs): no generation afterwards, no write
   /\ \A i \in Idx(log, "sea") : log[i].ans = "fresh" =>
         /\ St(proc, log[i].name) = "untouched"
         /\ ~PutAny(log, log[i].name)
         /\ ~\E g \in Idx(log, "gen") : g > i /\ log[g].name = log[i].name
SearcherOrder(log) == \A i \in Idx(log, "sea") :
   /\ log[i].idx > 1 =>
        \E j \in Idx(log, "sea") : /\ j < i /\ log[j].name = log[i].name /\ log[j].idx = log[i].idx - 1
                                   /\ log[j].ans # "fresh"
                                   /\ ~\E k \in Idx(log, "sea") : j < k /\ k < i /\ log[k].name = log[i].name
   /\ log[i].ans = "fresh" => ~\E k \in Idx(log, "sea") : k > i /\ log[k].name = log[i].name
\* searchers see the time stamp of the copy that was read (source s -> 100+s, borrower b -> 200+b)
SearcherSeesSourceTime(log) == \A i \in Idx(log, "sea") :
   \/ \E s \in Idx(log, "sym") : s < i /\ log[s].name = log[i].name /\ log[s].ans = "ok" /\ log[i].mtime = 100 + log[s].idx
   \/ \E b \in Idx(log, "bor") : b < i /\ log[b].name = log[i].name /\ log[b].ans = "ok" /\ log[i].mtime = 200 + log[b].idx
NoDepsOnlyRequested(req, log, o) == o.noDeps =>
   \A g \in Idx(log, "gen") : \E i \in DOMAIN req : log[g].name \in Yielded(log, req[i])
\* without noDeps every accepted, non-fresh module is generated
GeneratedWhenNeeded(req, log, o, ended) == ended = "return" =>
   \A s \in Idx(log, "sym") : (log[s].ans = "ok" /\ (~o.noDeps \/ \E i \in DOMAIN req : log[s].name \in Yielded(log, req[i]))) =>
        \/ \E g \in Idx(log, "gen") : log[g].name = log[s].name
        \/ \E f \in Idx(log, "sea") : log[f].name = log[s].name /\ log[f].ans = "fresh"

\* ------------------------------------------------------------------ C19a
FailedBefore(log, m, i) ==   \* m had failed or was missing when event i happened
   \/ \E j \in DOMAIN log : j < i /\ log[j].ev \in {"get", "parse", "gen"} /\ log[j].name = m /\ log[j].ans \in {"err", "parseerr", "lexerr", "empty", "nf"}
   \/ \E j \in Idx(log, "sym") : j < i /\ log[j].file = m /\ log[j].ans # "ok"
   \/ \E j \in Idx(log, "parse") : j < i /\ log[j].name = m /\ log[j].ans = "ok" /\ Len(log[j].mods) = 0
   \/ ~\E j \in Idx(log, "get") : log[j].name = m            \* no source configured at all
BorrowOnlyFailures(log) == \A b \in Idx(log, "bor") :
   /\ ~GenOk(log, log[b].name)
   /\ FailedBefore(log, log[b].name, b)
   /\ ~\E j \in Idx(log, "gen") : j > b                      \* borrowing starts after all generation
FlavourMatch(log, o) == \A b \in Idx(log, "bor") : log[b].flag = o.genTexts
BorrowOrder(log) == \A b \in Idx(log, "bor") :
   /\ \A c \in Idx(log, "bor") : (c < b /\ log[c].name = log[b].name) => (log[c].idx < log[b].idx /\ log[c].ans # "ok")
Verbatim(log, proc, o, ended) == ended = "return" =>
   \A b \in Idx(log, "bor") : log[b].ans = "ok" =>
      \/ \E f \in Idx(log, "sea") : f > b /\ log[f].name = log[b].name /\ log[f].ans = "fresh"
      \/ St(proc, log[b].name) = "unprocessed"
      \/ /\ St(proc, log[b].name) \in {"borrowed", "failed"}
         /\ (St(proc, log[b].name) = "failed") => WriterFailed(log, log[b].name)
         /\ o.writeMibs => \E p \in Idx(log, "put") : log[p].name = log[b].name /\ log[p].text = log[b].text
\* status borrowed only for a module a borrower actually supplied
BorrowedMeansLent(log, proc, ended) == ended = "return" => \A m \in DOMAIN proc : proc[m].st = "borrowed" => Lent(log, m)
NeverReplaceCompiled(log) == \A p \in Idx(log, "put") :
   GenOk(log, log[p].name) => \E g \in Idx(log, "gen") : log[g].name = log[p].name /\ log[g].text = log[p].text
\* a requested name that failed / is missing is offered to the borrowers, noDeps or not
RequestedStayEligible(req, log, proc, o, nbor, flavs, ended) == (ended = "return" /\ nbor > 0) =>
   /\ \A i \in DOMAIN req :
      LET r == req[i] IN
      (/\ Yielded(log, r) = {}
       /\ ~\E s \in Idx(log, "sym") : log[s].name = r /\ log[s].ans = "ok"   \* r is not a module another file supplied
       /\ \E k \in 1..nbor : flavs[k] = o.genTexts) =>
          \E b \in Idx(log, "bor") : log[b].name = r
   \* ... and so is a module that a requested file supplied (requested under its file name) and that failed in
   \* code generation: it is "explicitly requested" although its canonical name differs from the name asked for
   /\ \A m \in {log[g].name : g \in {j \in Idx(log, "gen") : log[j].ans # "ok"}} :
         (Requested(req, log, m) /\ \E k \in 1..nbor : flavs[k] = o.genTexts) =>
             \E b \in Idx(log, "bor") : log[b].name = m
=============================================================================
