--------------------------- MODULE OidIndexTrace ---------------------------
(* Batch trace validation for genIndex()/buildIndex(): every event is one     *)
(* call with its batch and the index the REAL code produced.  Refinement:     *)
(* the observed index must equal MergeBatch(previous observed index, batch).  *)
(* Monitor: the C18 formulas are evaluated on the observed index itself.      *)
EXTENDS OidIndex, Json, IOUtils, TLCExt
VARIABLES tid, l, failed, driftAt
Traces == JsonDeserialize(IOEnv.TRACE_FILE)
T == Traces[tid]
Rng(s) == {s[i] : i \in DOMAIN s}
SecOf(s) == LET os == {s[i].oid : i \in DOMAIN s} IN
            [o \in os |-> LET e == CHOOSE e \in Rng(s) : e.oid = o IN Rng(e.mods)]
IdxOf(j) == [identity |-> SecOf(j.identity), enterprise |-> SecOf(j.enterprise),
             compliance |-> SecOf(j.compliance), oids |-> SecOf(j.oids)]
RecOf(r) == [identity |-> r.identity, enterprise |-> r.enterprise, compliance |-> Rng(r.compliance), oids |-> Rng(r.oids)]
BatchOf(b) == [k \in DOMAIN b |-> [mod |-> b[k].mod, rec |-> RecOf(b[k].rec)]]

TInit == /\ tid \in 1..Len(Traces) /\ l = 1 /\ failed = {} /\ driftAt = 0
         /\ idx = EmptyIdx /\ defs = EmptyDefs /\ nbuilds = 0 /\ hist = <<>> /\ prev = EmptyIdx
Step ==
  /\ l <= Len(T.events)
  /\ LET e == T.events[l]
         batch == BatchOf(e.batch)
         obs == IdxOf(e.index)
         d2 == DefsBatch(defs, batch, 1)
         f == {n \in {"Listed", "Cover", "OnlyDefines", "Monotone", "Idempotent"} :
                 CASE n = "Listed" -> ~Listed(obs, d2)
                   [] n = "Cover" -> ~Cover(obs, d2)
                   [] n = "OnlyDefines" -> ~OnlyDefines(obs, d2)
                   [] n = "Monotone" -> ~Monotone(idx, obs)
                   [] n = "Idempotent" -> e.repeat /\ ~SameProvided(obs, idx)}
     IN /\ idx' = obs /\ prev' = idx /\ defs' = d2
        /\ failed' = failed \cup f
        /\ driftAt' = IF driftAt = 0 /\ MergeBatch(idx, batch, 1) # obs THEN l ELSE driftAt
        /\ hist' = <<>> /\ nbuilds' = 0
  /\ l' = l + 1 /\ tid' = tid
TSpec == TInit /\ [][Step]_<<vars, tid, l, failed, driftAt>>
Report == (l > Len(T.events)) =>
   PrintT(ToJson([id |-> T.id, refine |-> IF driftAt = 0 THEN "ok" ELSE "drift", at |-> driftAt, failed |-> failed]))
=============================================================================
