---- MODULE HistoryTrace ----
(* Validates recorded histories: element-wise comparison of what a shared instance produced with what a fresh
   instance produces for the same input, plus hash-seed runs.  Digests are opaque strings minted by the harness. *)
EXTENDS Naturals, Sequences, FiniteSets, TLC, Json, IOUtils, TLCExt
VARIABLE tid
Traces == JsonDeserialize(IOEnv.TRACE_FILE)
T == Traces[tid]
Init == tid \in 1..Len(Traces)
Next == FALSE /\ UNCHANGED tid
Evs == T.events
Stateless == \A i \in DOMAIN Evs : Evs[i].out = Evs[i].fresh
FirstBad == IF Stateless THEN 0 ELSE CHOOSE i \in DOMAIN Evs : Evs[i].out # Evs[i].fresh /\ \A j \in DOMAIN Evs : Evs[j].out # Evs[j].fresh => i <= j
\* a result that was handed out does not change when the same instance is used again
Stable == \A i \in DOMAIN Evs : Evs[i].later = Evs[i].out
ScratchPristine == \A i \in DOMAIN Evs : Evs[i].pre = Evs[i].freshpre
SeedFree == \A i, j \in DOMAIN T.seedruns : T.seedruns[i].digest = T.seedruns[j].digest
Report == PrintT(ToJson([id |-> T.id, failed |-> {n \in {"Stateless", "SeedFree", "Stable"} : CASE n = "Stateless" -> ~Stateless [] n = "SeedFree" -> ~SeedFree [] OTHER -> ~Stable},
                          at |-> FirstBad, pristine |-> ScratchPristine]))
====
