---- MODULE MC_Texts ----
EXTENDS Texts, Json
AllC == Classes
Export == (sc # <<>>) => PrintT(ToJson(sc))
====
