---- MODULE MC_AtomicWrite ----
EXTENDS AtomicWrite, Json
W1 == {"w1"}
W2 == {"w1", "w2"}
Both == {"absent", "old"}
FaultJ == [w \in Writers |-> fault[w]]
HistJ == [i \in DOMAIN hist |-> [w |-> hist[i][1], call |-> hist[i][2], res |-> hist[i][3]]]
Export == AllFinal => PrintT(ToJson([kind |-> Kind, writers |-> Cardinality(Writers), fault |-> FaultJ, dry |-> dry, dest0 |-> dest0,
                                       dir0 |-> (dest0 = "old" \/ (hist # <<>> /\ hist[1][3] = "T")), hist |-> HistJ,
                                       final |-> [w \in Writers |-> pc[w]], dest |-> dest]))
\* no behaviour gets stuck before every writer is final (a stuck schedule would silently drop out of the export)
NoStuck == AllFinal \/ ENABLED Next
====
