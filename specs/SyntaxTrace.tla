---- MODULE SyntaxTrace ----
(* C02 monitor: the tree the real parser returned (per dialect) against Tree(file), recomputed here from the abstract file.
   Trees mix strings and sequences, which TLC cannot compare directly: both sides go through the same serialiser. *)
EXTENDS Syntax, Json, IOUtils, TLCExt
VARIABLE tid
Traces == JsonDeserialize(IOEnv.TRACE_FILE)
T == Traces[tid]
TInit == tid \in 1..Len(Traces) /\ file = T.file /\ offset = T.offset
TNext == FALSE /\ UNCHANGED <<vars, tid>>
Expected == ToJson(FileTree(file))
\* rendered from these very tokens and fillers (binding of the text to the model)
TextIsModel == T.toks = FileToks(file) /\ T.fills = Fills(FileToks(file), offset)
\* the superset dialect accepts every generated text; each dialect that accepts yields exactly Tree(file)
Accepted == \E i \in DOMAIN T.obs : T.obs[i].dialect = "smiV1Relaxed" /\ T.obs[i].ok
TreeFaithful == \A i \in DOMAIN T.obs : T.obs[i].ok => ToJson(T.obs[i].tree) = Expected
\* same abstract file under another layout / other block bodies gives the same tree (second rendering)
LayoutIndependent == \A i \in DOMAIN T.obs : (T.obs[i].ok /\ T.obs[i].ok2) => ToJson(T.obs[i].tree2) = ToJson(T.obs[i].tree)
Checks == << <<"TextIsModel", TextIsModel>>, <<"Accepted", Accepted>>, <<"TreeFaithful", TreeFaithful>>, <<"LayoutIndependent", LayoutIndependent>> >>
Report == PrintT(ToJson([id |-> T.id, failed |-> {Checks[i][1] : i \in {j \in DOMAIN Checks : ~Checks[j][2]}}]))
====
