---- MODULE MutateTrace ----
(* C11 monitor: what parse() answered for a mutated or truncated text, judged with the model's line map and module spans. *)
EXTENDS Mutate, Json, IOUtils, TLCExt
VARIABLE tid
Traces == JsonDeserialize(IOEnv.TRACE_FILE)
T == Traces[tid]
TInit == tid \in 1..Len(Traces) /\ file = T.file /\ offset = T.offset /\ mut = (IF T.kind = "mut" THEN T.mut ELSE NoMut)
TNext == FALSE /\ UNCHANGED <<mvars, tid>>
O == T.obs
IsMut == T.kind = "mut"
IsTrunc == T.kind = "trunc"
\* the text that was parsed is the model's mutated token / filler sequence
TextIsModel == IsMut => (T.mtoks = MutToks(mut) /\ T.mfills = MutFills(mut))
OnlyPackageErrors == O.kind \in {"modules", "PySmiLexerError", "PySmiParserError"}
Terminates == O.ms < 5000
\* the macro region (keyword .. END) and the token right after a block keyword are inside a block: what is put there is skipped
BlockKw == {"MACRO", "EXPORTS", "CHOICE"}
\* (the macro name before the keyword up to the closing END / body: anything that touches this region may derail the block)
InBlock(i) == \E j \in DOMAIN BaseToks : BaseToks[j] \in BlockKw /\ i >= j - 1 /\ i <= j + 3
IllegalRejected == (IsMut /\ mut.op \in {"replace", "insert"} /\ mut.t \in Illegal /\ ~InBlock(mut.i)) =>
   (O.kind = "PySmiLexerError" /\ O.line = MutLines(mut)[mut.i])
Located == (O.kind # "modules" /\ IsMut) =>
   /\ O.line \in 1..TotalLines(mut)
   /\ (O.kind = "PySmiParserError" /\ O.tok # "@EOF" /\ ~InBlock(mut.i)) =>
        \E j \in DOMAIN T.spelled : j >= mut.i - 1 /\ T.spelled[j] = O.tok /\ MutLines(mut)[j] = O.line
TruncationIsError == IsTrunc =>
   IF InsideModule(T.k, T.partial) THEN O.kind # "modules"
   ELSE (O.kind = "modules" /\ O.nmods = CompleteBefore(T.k))
TruncLocated == (IsTrunc /\ O.kind # "modules") => O.line \in 1..T.lines
Checks == << <<"TextIsModel", TextIsModel>>, <<"OnlyPackageErrors", OnlyPackageErrors>>, <<"Terminates", Terminates>>, <<"IllegalRejected", IllegalRejected>>,
             <<"Located", Located>>, <<"TruncationIsError", TruncationIsError>>, <<"TruncLocated", TruncLocated>> >>
Report == PrintT(ToJson([id |-> T.id, failed |-> {Checks[i][1] : i \in {j \in DOMAIN Checks : ~Checks[j][2]}}]))
====
