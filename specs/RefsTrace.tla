---- MODULE RefsTrace ----
(* C06 monitor: observed references (JSON document and executed pysnmp objects) against the scenario. *)
EXTENDS Refs, Json, IOUtils, TLCExt
VARIABLE tid
Traces == JsonDeserialize(IOEnv.TRACE_FILE)
T == Traces[tid]
TInit == tid \in 1..Len(Traces) /\ aspect = T.aspect /\ sc = T.sc
TNext == FALSE /\ UNCHANGED <<vars, tid>>
O == T.obs
Compiled == O.status = "compiled"
RefSeq(s) == [i \in DOMAIN s |-> R(s[i].m, s[i].o)]
\* --- table
ExpIndex == [i \in DOMAIN sc.index |-> [m |-> sc.index[i].m, o |-> sc.index[i].o, implied |-> (sc.implied /\ i = Len(sc.index))]]
ObsIndex(x) == [i \in DOMAIN x |-> [m |-> x[i].m, o |-> x[i].o, implied |-> x[i].implied]]
ExpNodeTypes == [table |-> "table", row |-> "row", s1 |-> "scalar"] 
NodeType == (Compiled /\ aspect = "table") =>
   /\ O.nodetype.table = "table" /\ O.nodetype.row = "row" /\ O.nodetype.s1 = "scalar"
   /\ \A i \in 1..sc.ncols : O.nodetype.cols[i] = "column"
   /\ sc.second # "none" => O.nodetype.row2 = "row"
IndexFaithful == (Compiled /\ aspect = "table") => (ObsIndex(O.json.index) = ExpIndex /\ (T.pysnmp => ObsIndex(O.py.index) = ExpIndex))
AugmentsTarget == (Compiled /\ aspect = "table" /\ sc.second # "none") =>
   LET target == IF sc.second = "augments-local" THEN R("L", "row") ELSE R("B", "bRow") IN
   /\ R(O.json.augments.m, O.json.augments.o) = target
   /\ T.pysnmp => (R(O.py.augments.m, O.py.augments.o) = target /\ ObsIndex(O.py.index2) = (IF sc.second = "augments-local" THEN ExpIndex ELSE <<[m |-> "B", o |-> "bIdx", implied |-> FALSE]>>))
\* --- lists
ListsFaithful == (Compiled /\ aspect = "list") => (RefSeq(O.json.objs) = sc.objs /\ (T.pysnmp => RefSeq(O.py.objs) = sc.objs))
\* --- compliance
RECURSIVE Flat(_, _)
Flat(parts, i) == IF i > Len(parts) THEN <<>> ELSE
   LET g == ExpectedGroups(parts[i]) IN [k \in DOMAIN g |-> [m |-> IF parts[i].named THEN "B" ELSE "L", o |-> g[k].o]] \o Flat(parts, i + 1)
ComplianceFaithful == (Compiled /\ aspect = "compliance") =>
   (RefSeq(O.json.groups) = RefSeq(Flat(sc, 1)) /\ (T.pysnmp => RefSeq(O.py.groups) = RefSeq(Flat(sc, 1))))
Checks == << <<"Compiles", Compiled>>, <<"NodeType", NodeType>>, <<"IndexFaithful", IndexFaithful>>, <<"AugmentsTarget", AugmentsTarget>>,
             <<"ListsFaithful", ListsFaithful>>, <<"ComplianceFaithful", ComplianceFaithful>> >>
Report == PrintT(ToJson([id |-> T.id, failed |-> {Checks[i][1] : i \in {j \in DOMAIN Checks : ~Checks[j][2]}}]))
====
