---- MODULE V1V2Trace ----
(* C16 monitor: projections of the two compilations, and the import-rewrite rows. *)
EXTENDS V1V2, Json, IOUtils, TLCExt
VARIABLE tid
Traces == JsonDeserialize(IOEnv.TRACE_FILE)
T == Traces[tid]
TInit == tid \in 1..Len(Traces) /\ sc = (IF T.kind = "pair" THEN T.sc ELSE <<>>)
TNext == FALSE /\ UNCHANGED <<vars, tid>>
SetOf(s) == {s[i] : i \in DOMAIN s}
A == T.v1
B == T.v2
Pair == T.kind = "pair"
BothCompile == Pair => (A.status = "compiled" /\ B.status = "compiled")
\* an index given as a bare type has no mechanical SMIv2 counterpart: only "both compile" is asked of such a pair
TypeIndex == Pair /\ sc.table /\ sc.idxtype = "TYPE:INTEGER"
Ok == Pair /\ A.status = "compiled" /\ B.status = "compiled" /\ ~TypeIndex
\* same symbols with the same OIDs, classes, node types and references (status through the v1 -> v2 map)
SameObjects == Ok =>
   /\ {A.syms[i].name : i \in DOMAIN A.syms} = {B.syms[i].name : i \in DOMAIN B.syms}
   /\ \A i \in DOMAIN A.syms : \E j \in DOMAIN B.syms :
        /\ A.syms[i].name = B.syms[j].name /\ A.syms[i].oid = B.syms[j].oid /\ A.syms[i].cls = B.syms[j].cls
        /\ A.syms[i].nodetype = B.syms[j].nodetype /\ A.syms[i].refs = B.syms[j].refs
        /\ (A.syms[i].status = "-" \/ V2Status(A.syms[i].status) = B.syms[j].status)
\* a DEFVAL survives in both texts, with the same value (and is absent where none was written)
SameDefaults == Ok => (A.defaults = B.defaults /\ \A k \in DOMAIN sc.objs : (A.defaults[k] # "-") = sc.objs[k].defval)
TypeMap == (Ok /\ T.pysnmp) => \A k \in DOMAIN sc.objs :
   /\ A.pyclass[k] = V2Class(sc.objs[k].type) /\ B.pyclass[k] = V2Class(sc.objs[k].type)
AccessIsMaxAccess == Ok => \A k \in DOMAIN sc.objs : (A.access[k] = sc.objs[k].access /\ B.access[k] = sc.objs[k].access)
TrapIsNotification == Ok => (A.trap.cls = "notificationtype" /\ A.trap.oid = B.trap.oid /\ A.trap.oid # <<>> /\ A.trap.refs = B.trap.refs)
\* rewrite rows: the symbol must not stay with a SMIv1 module, and its new home must export it where that can be looked up
V1Mods == {"RFC1155-SMI", "RFC1065-SMI", "RFC-1212", "RFC-1215", "RFC1213-MIB", "RFC1158-MIB"}
\* a symbol never stays with one of the SMI-defining SMIv1 modules; MIB-II objects without an SMIv2 home (egp*) may stay
\* in RFC1213-MIB; where the new home is a module shipped with pysnmp it must export the symbol
SmiV1Mods == {"RFC1155-SMI", "RFC1065-SMI", "RFC-1212", "RFC-1215", "RFC1158-MIB"}
ImportsRewritten == (T.kind = "row") =>
   /\ T.newmod \notin SmiV1Mods
   /\ T.shipped => T.exported
ImportsInPair == Ok => \A i \in DOMAIN A.imports : A.imports[i] \notin SmiV1Mods
Checks == << <<"BothCompile", BothCompile>>, <<"SameObjects", SameObjects>>, <<"SameDefaults", SameDefaults>>, <<"TypeMap", TypeMap>>, <<"AccessIsMaxAccess", AccessIsMaxAccess>>,
             <<"TrapIsNotification", TrapIsNotification>>, <<"ImportsRewritten", ImportsRewritten>>, <<"ImportsInPair", ImportsInPair>> >>
Report == PrintT(ToJson([id |-> T.id, failed |-> {Checks[i][1] : i \in {j \in DOMAIN Checks : ~Checks[j][2]}}]))
====
