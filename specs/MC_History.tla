---- MODULE MC_History ----
EXTENDS History, Json
Export == (phase = "idle" /\ Len(hist) >= 1) => PrintT(ToJson([kind |-> kind, hist |-> hist]))
====
