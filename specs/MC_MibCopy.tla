---- MODULE MC_MibCopy ----
EXTENDS MibCopy, Json, TLC
Fl(m, r, i) == [mod |-> m, rev |-> r, id |-> i]
Names2 == {"AA-MIB", "BB-MIB"}
\* three files: two copies of one module and one other; revisions none / 1 / 2; a broken file
FileSets_q == { {Fl("AA-MIB", ra, 1), Fl("AA-MIB", rb, 2), Fl(m3, rc, 3)} :
                   ra \in 0..2, rb \in 0..2, rc \in {0, 2}, m3 \in {"AA-MIB", "BB-MIB", "-"} }
FileSets_u == { {Fl("AA-MIB", 1, 1), Fl("BB-MIB", 2, 2)} }
D0(a, b) == [n \in Names2 |-> IF n = "AA-MIB" THEN a ELSE b]
Dests_q == {D0(a, b) : a \in {NoCopy, Fl("AA-MIB", 0, 10), Fl("AA-MIB", 1, 10), Fl("AA-MIB", 2, 10)},
                        b \in {NoCopy, Fl("BB-MIB", 1, 11)}}
\* thorough: four files over two modules, revisions up to 3
FileSets_t == { {Fl("AA-MIB", ra, 1), Fl("AA-MIB", rb, 2), Fl(m3, rc, 3), Fl(m4, rd, 4)} :
                   ra \in 0..3, rb \in 0..2, rc \in {0, 3}, rd \in {0, 1}, m3 \in {"AA-MIB", "BB-MIB"}, m4 \in {"BB-MIB", "-"} }
Dests_t == {D0(a, b) : a \in {NoCopy, Fl("AA-MIB", 0, 10), Fl("AA-MIB", 2, 10)},
                        b \in {NoCopy, Fl("BB-MIB", 0, 11), Fl("BB-MIB", 1, 11)}}
AllUsage == UsageKinds
OnlyNone == {"none"}
SetToSeq(S) == CHOOSE s \in [1..Cardinality(S) -> S] : \A x \in S : \E i \in DOMAIN s : s[i] = x
Scen == [usage |-> usage, mexit |-> exitc, files |-> SetToSeq(srcs), dest0 |-> [n \in Names |-> dest0[n]], order |-> order,
         dest |-> [n \in Names |-> dest[n]], copied |-> copied, notcopied |-> notcopied, failed |-> failedn]
Export == Done => PrintT(ToJson(Scen))
====
