---- MODULE MC_PysnmpLoad ----
(* design-level check of the loader machine on small module sets: all import relations over 3 modules, all load orders *)
EXTENDS PysnmpLoad
G3 == {"A", "B", "C"}
W(f, s) == [from |-> f, syms |-> s]
\* each module imports one symbol from any other generated module or from the base ("X" = not generated)
Reqs == {<<>>, <<W("A", {"a"})>>, <<W("B", {"b"})>>, <<W("C", {"c"})>>, <<W("X", {"x"})>>, <<W("B", {"b"}), W("C", {"c"})>>, <<W("C", {"zz"})>>}
WantsSet == {f \in [G3 -> Reqs] : \A m \in G3 : \A i \in DOMAIN f[m] : f[m][i].from # m}
ExportsDef == [m \in G3 |-> IF m = "A" THEN {"a"} ELSE IF m = "B" THEN {"b"} ELSE {"c"}]
Orders == {<<"A", "B", "C">>, <<"C", "B", "A">>, <<"B", "A", "C">>}
====
