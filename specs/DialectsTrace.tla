---- MODULE DialectsTrace ----
(* C17 monitor *)
EXTENDS Dialects, Json, IOUtils, TLCExt
VARIABLE tid
Traces == JsonDeserialize(IOEnv.TRACE_FILE)
T == Traces[tid]
SetOf(q) == {q[i] : i \in DOMAIN q}
TInit == tid \in 1..Len(Traces) /\ file = <<>> /\ offset = 0 /\ S = SetOf(T.S) /\ what = None
TNext == FALSE /\ UNCHANGED <<dvars, tid>>
O == T.obs
IsEdit == T.k = "edit"
IsWr == T.k = "writable"
IsStep == T.k = "step"
\* the dialect was buildable as the model says
BuildableAsDocumented == Buildable(S) = T.built
\* the broken text is the host's tokens with the documented edit (binding to the model)
TextIsModel == /\ IsEdit => \E e \in Edits : e.opt = T.opt /\ e.host = T.host /\ T.toks = Broken(e)
               /\ IsWr => T.toks = FileToks(T.host)
MeansWhatItSays ==
   /\ (IsEdit /\ T.opt \in S) => (O.ok /\ ToJson(O.tree) = ToJson(FileTree(T.host)))
   /\ (IsEdit /\ T.opt \notin S) => ~O.ok /\ O.pkgerr
   /\ (IsWr /\ SetOf(T.needs) \subseteq S) => (O.ok /\ ToJson(O.tree) = ToJson(FileTree(T.host)))
   /\ (IsWr /\ ~(SetOf(T.needs) \subseteq S) /\ T.rejectedWithout) => (~O.ok /\ O.pkgerr)
\* the well-formed host itself parses to its tree under every dialect (relaxations only add)
HostAccepted == IsEdit => (O.hostok /\ ToJson(O.hosttree) = ToJson(FileTree(T.host)))
Monotone == IsStep => \A i \in DOMAIN T.texts : (T.texts[i].acc /\ ~T.texts[i].usesReserved) => (T.texts[i].acc2 /\ T.texts[i].tree = T.texts[i].tree2)
UnknownRejected == (T.k = "unknown") => (T.trueRejectedWithPkgError /\ T.falseAccepted)
Checks == << <<"BuildableAsDocumented", BuildableAsDocumented>>, <<"TextIsModel", TextIsModel>>, <<"MeansWhatItSays", MeansWhatItSays>>,
             <<"HostAccepted", HostAccepted>>, <<"Monotone", Monotone>>, <<"UnknownRejected", UnknownRejected>> >>
Report == PrintT(ToJson([id |-> T.id, failed |-> {Checks[i][1] : i \in {j \in DOMAIN Checks : ~Checks[j][2]}}]))
====
