---- MODULE MC_Types ----
EXTENDS Types, Json
Export == (aspect # "-") => PrintT(ToJson([aspect |-> aspect, sc |-> sc]))
====
