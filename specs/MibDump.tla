------------------------------- MODULE MibDump -------------------------------
(* scripts/mibdump.py as a state machine on top of MibCompile.                 *)
(*                                                                             *)
(* The script is: parse the command line -> configure real components for the  *)
(* destination format -> MibCompiler.compile() -> optional buildIndex() ->     *)
(* report on stderr -> exit status.  Here the components are REAL (directory   *)
(* reader, file / package / stub searchers, file borrower, file writer), so    *)
(* their answers are not free: they are a function of what is on disk.  The    *)
(* quantified variable is therefore the WORLD `w`: the state of the source,    *)
(* borrower and destination directories plus the command line.  The lazy       *)
(* environment of MibCompile is pre-filled from the world (EnvOf), which makes *)
(* compile() deterministic; only the code generator's answer is decided while  *)
(* running (it depends on which modules own a symbol table at that moment).    *)
(*                                                                             *)
(* World fields                                                                *)
(*   usage  : "none" | "help" | "noMibs" | "badOpt" | "badFormat" | "badLevel" *)
(*   req    : sequence of requested names ("afile" = a file named unlike the   *)
(*            module AA-MIB it holds)                                          *)
(*   srcA/B : "ok" | "broken" | "missing"   file <module>.txt in the source dir *)
(*            ("cut": the file ends inside a MACRO body - a lexer error)         *)
(*            srcB may also be "packed": there is no BB-MIB.txt, the module    *)
(*            BB-MIB follows AA-MIB inside AA-MIB.txt (two modules in one file) *)
(*   src2A  : "ok" | "broken" | "missing"   AA-MIB.txt in the SECOND source dir  *)
(*   alias  : BOOLEAN                       file afile.txt (module AA-MIB) exists *)
(*   sub    : BOOLEAN   BB-MIB.txt lies in a sub-directory of the source dir   *)
(*            (the directory reader is recursive: no answer depends on this)   *)
(*   imp    : "none" | "AB" | "BA" | "both" who imports whom                   *)
(*   spell  : "exact" | "variant"  IMPORTS name the other module exactly, or by *)
(*            a case variant (Bb-Mib for BB-MIB) that the directory reader still *)
(*            resolves to the file BB-MIB.txt                                   *)
(*   dstA/B : "absent" | "fresh" | "stale"  file in the destination beforehand *)
(*   dstKind: "dir" | "file"   --destination-directory names a directory, or an *)
(*            existing regular file (nothing can be stored, nothing looked up)   *)
(*   reqForm: "name" | "path"  modules are requested by name, or as paths of    *)
(*            files in the first source directory (the script then adds that    *)
(*            directory to the sources itself and strips directory + extension) *)
(*   stubB  : BOOLEAN   --mib-stub=BB-MIB is given: BB-MIB is never generated,  *)
(*            and - the option REPLACES the default stub list - the base         *)
(*            modules are no longer stubs: they are compiled and stored too     *)
(*   borA/B : BOOLEAN                       file in the borrower directory     *)
(*   base   : BOOLEAN                       SNMPv2-SMI/-TC/-CONF in the source  *)
(*   noDeps, rebuild, ignoreErrors, noWrites, dryRun, buildIndex, quiet : flags *)
(*   texts  : "no" | "before" | "after"     --generate-mib-texts given before / *)
(*            after --mib-borrower (the borrower's flavour is the value of the *)
(*            flag at the moment --mib-borrower is read)                        *)
EXTENDS MibCompile

CONSTANTS Fmt,        \* "json" | "pysnmp" | "null"   (decides searcher list, writer, index support)
          Dom,        \* the worlds to explore: a record of field domains ...
          Keep(_)     \* ... and a filter on worlds

VARIABLES w, dpc, exitc, reported, report, idxw
dvars == <<w, dpc, exitc, reported, report, idxw>>
allvars == <<vars, dvars>>

BaseSeq  == <<"SNMPv2-CONF", "SNMPv2-SMI", "SNMPv2-TC">>
BaseSet  == {"SNMPv2-CONF", "SNMPv2-SMI", "SNMPv2-TC"}
UserMods == {"AA-MIB", "BB-MIB"}
AllMods  == UserMods \cup BaseSet
Variant(m) == CASE m = "AA-MIB" -> "Aa-Mib" [] m = "BB-MIB" -> "Bb-Mib" [] OTHER -> m
AllNames == AllMods \cup {"afile", "Aa-Mib", "Bb-Mib"}

B2S(b) == IF b THEN "T" ELSE "F"
Mod(n, i, s) == [name |-> n, imp |-> i, sem |-> s]
Ok(ms) == [r |-> "ok", mods |-> ms]

\* imports as symtable.genImports returns them: sorted, constant imports merged in
ImpOf(wd, m) ==
  CASE m = "AA-MIB" /\ wd.imp \in {"AB", "both"} -> <<IF wd.spell = "variant" THEN "Bb-Mib" ELSE "BB-MIB">> \o BaseSeq
    [] m = "BB-MIB" /\ wd.imp \in {"BA", "both"} -> <<IF wd.spell = "variant" THEN "Aa-Mib" ELSE "AA-MIB">> \o BaseSeq
    [] OTHER -> BaseSeq

OptVal(wd, o) ==
  CASE o = "noDeps" -> wd.noDeps [] o = "rebuild" -> wd.rebuild [] o = "ignoreErrors" -> wd.ignoreErrors
    [] o = "genTexts" -> wd.texts # "no" [] o = "writeMibs" -> ~wd.noWrites [] o = "dryRun" -> wd.dryRun

FileAns(st, m, wd) ==
  CASE st = "ok" /\ m = "AA-MIB" /\ wd.srcB = "packed" ->
                    Ok(<<Mod("AA-MIB", ImpOf(wd, "AA-MIB"), "ok"), Mod("BB-MIB", ImpOf(wd, "BB-MIB"), "ok")>>)
    [] st = "ok" -> Ok(<<Mod(m, ImpOf(wd, m), "ok")>>)
    [] st = "broken" -> A("parseerr")
    [] st = "cut" -> A("lexerr")              \* the file ends inside a MACRO body: the lexer's error; the next file must parse normally
    [] OTHER -> A("nf")

\* the second source directory only ever holds a copy of AA-MIB
SrcAnsOf(wd, k, n) ==
  IF k > 1 THEN (IF n \in {"AA-MIB", "Aa-Mib"} THEN FileAns(wd.src2A, "AA-MIB", wd) ELSE A("nf")) ELSE
  CASE n \in {"AA-MIB", "Aa-Mib"} -> FileAns(wd.srcA, "AA-MIB", wd)      \* upper-case matching finds AA-MIB.txt
    [] n \in {"BB-MIB", "Bb-Mib"} -> FileAns(IF wd.srcB = "packed" THEN "missing" ELSE wd.srcB, "BB-MIB", wd)
    [] n = "afile"  -> IF wd.alias THEN Ok(<<Mod("AA-MIB", ImpOf(wd, "AA-MIB"), "ok")>>) ELSE A("nf")
    [] OTHER        -> IF wd.base THEN Ok(<<Mod(n, BaseSeq, "ok")>>) ELSE A("nf")

DstOf(wd, m) == CASE m = "AA-MIB" -> wd.dstA [] m = "BB-MIB" -> wd.dstB [] OTHER -> "absent"
\* the borrower's reader also tries the upper-case variant of a name: Aa-Mib finds AA-MIB.json
\* (the null format configures AnyFileBorrower without extensions: its variant list is empty and it never lends)
BorOf(wd, m) == CASE Fmt = "null" -> FALSE [] m \in {"AA-MIB", "Aa-Mib"} -> wd.borA [] m \in {"BB-MIB", "Bb-Mib"} -> wd.borB [] OTHER -> FALSE

\* searcher lists:  json   = [AnyFileSearcher(dst), StubSearcher(base)]
\*                  pysnmp = [PyFileSearcher(dst), PyPackageSearcher(pysnmp.smi.mibs), PyPackageSearcher(pysnmp_mibs), StubSearcher(base)]
\*                  null   = [StubSearcher(base)]
FileSearcher(wd, m) == IF wd.rebuild THEN "silent" ELSE IF wd.dstKind = "dir" /\ DstOf(wd, m) = "fresh" THEN "fresh" ELSE "absent"
SeaAnsOf(wd, k, m) ==
  IF k = NSea THEN (IF m \in (IF wd.stubB THEN {"BB-MIB"} ELSE BaseSet) THEN "fresh" ELSE "absent")
  ELSE IF k = 1 THEN FileSearcher(wd, m)
  ELSE IF k = 2 /\ m \in BaseSet THEN (IF wd.rebuild THEN "silent" ELSE "fresh")      \* pysnmp ships these modules
  ELSE "absent"

Keys == {OptKey(o) : o \in OptNames} \cup {<<"bflav", 1, "-">>}
        \cup {<<"src", k, n>> : k \in 1..NSrc, n \in AllNames}
        \cup {<<p, k, m>> : p \in {"sea", "bsea"}, k \in 1..NSea, m \in AllNames}
        \cup {<<"bor", 1, m>> : m \in AllNames} \cup {<<"put", 0, m>> : m \in AllNames}

EnvOf(wd) ==
  [k \in Keys |->
     CASE k[1] = "opt"   -> A(B2S(OptVal(wd, k[3])))
       [] k[1] = "bflav" -> A(B2S(wd.texts = "before"))
       [] k[1] = "src"   -> SrcAnsOf(wd, k[2], k[3])
       [] k[1] \in {"sea", "bsea"} -> A(SeaAnsOf(wd, k[2], k[3]))
       [] k[1] = "bor"   -> A(IF BorOf(wd, k[3]) THEN "ok" ELSE "nf")
       [] OTHER          -> A(IF wd.dstKind = "file" /\ ~wd.dryRun /\ Fmt # "null" THEN "err" ELSE "ok")]    \* "put" (a dry run never touches the disk)

\* ---------------------------------------------------------------- code generator's answer
\* modules that own a symbol table now, and what they import
SymIdx == {i \in DOMAIN log : log[i].ev = "sym" /\ log[i].ans = "ok"}
SymHolders == {log[i].name : i \in SymIdx}
ImportsOfHolder(m) == UNION {Rng(log[i].imp) : i \in {j \in SymIdx : log[j].name = m}}
RECURSIVE ImpClosure(_, _)
ImpClosure(S, n) == IF n = 0 THEN S
                 ELSE ImpClosure(S \cup UNION {IF x \in SymHolders THEN ImportsOfHolder(x) ELSE {} : x \in S}, n - 1)
\* the fixture's OID chains cross module borders, so generating m needs the symbol table of every
\* module reachable from m through IMPORTS
\* (the null generator needs no symbol table at all)
GenWorks(m) == Fmt = "null" \/ ImpClosure({m}, 4) \subseteq SymHolders

\* ---------------------------------------------------------------- the script
NoReport == [c \in Status |-> {}]

DInitW(wd) ==
  /\ w = wd
  /\ pc = "pop" /\ req = wd.req /\ work = wd.req /\ cur = "-" /\ si = 0 /\ todo = <<>>
  /\ parsed = <<>> /\ psrc = <<>> /\ failed = <<>> /\ borrowed = <<>> /\ bsrc = <<>>
  /\ built = <<>> /\ btext = <<>> /\ proc = <<>> /\ canon = {} /\ env = EnvOf(wd) /\ log = <<>>
  /\ ended = "no" /\ fetched = {}
  /\ dpc = "args" /\ exitc = 255 /\ reported = FALSE /\ report = NoReport /\ idxw = FALSE

DInit ==
  \E wd \in [usage : Dom.usage, req : Dom.req, srcA : Dom.srcA, src2A : Dom.src2A, srcB : Dom.srcB, alias : Dom.alias, sub : Dom.sub, imp : Dom.imp, spell : Dom.spell,
             dstA : Dom.dstA, dstB : Dom.dstB, dstKind : Dom.dstKind, reqForm : Dom.reqForm, stubB : Dom.stubB, borA : Dom.borA, borB : Dom.borB, base : Dom.base,
             noDeps : Dom.noDeps, rebuild : Dom.rebuild, ignoreErrors : Dom.ignoreErrors, noWrites : Dom.noWrites,
             dryRun : Dom.dryRun, texts : Dom.texts, buildIndex : Dom.buildIndex, quiet : Dom.quiet] :
     Keep(wd) /\ DInitW(wd)

\* getopt, --help, missing names, unknown format / optimisation level: nothing else happens
DArgs ==
  /\ dpc = "args"
  /\ CASE w.usage = "none" -> dpc' = "compile" /\ exitc' = exitc
       [] w.usage = "help" -> dpc' = "done" /\ exitc' = 0
       [] OTHER            -> dpc' = "done" /\ exitc' = 64
  /\ UNCHANGED <<vars, w, reported, report, idxw>>

\* one step of MibCompiler.compile(); a fresh "gen" answer must be what the symbol tables allow
DCompile ==
  /\ dpc = "compile" /\ ended = "no"
  /\ Next
  /\ \A k \in (DOMAIN env') \ (DOMAIN env) :
        k[1] = "gen" => env'[k].r = (IF GenWorks(k[3]) THEN "ok" ELSE "err")
  /\ UNCHANGED dvars

\* mibCompiler.buildIndex(processed, dryRun, ignoreErrors)
DIndex ==
  /\ dpc = "compile" /\ ended = "return"
  /\ IF ~w.buildIndex
     THEN dpc' = "report" /\ UNCHANGED <<exitc, idxw>>
     ELSE IF Fmt = "pysnmp"
          THEN \* PySnmpCodeGen has no genIndex(): NotImplementedError leaves the script (finding F-C20-pysnmp-index)
               dpc' = "done" /\ exitc' = 1 /\ idxw' = idxw
          ELSE IF Fmt = "null"
          THEN dpc' = "report" /\ UNCHANGED <<exitc, idxw>>          \* empty index handed to a writer that stores nothing
          ELSE IF w.dstKind = "file" /\ ~w.dryRun
          THEN \* the index cannot be stored: PySmiWriterError; the script exits 70 unless --ignore-errors
               IF w.ignoreErrors THEN dpc' = "report" /\ UNCHANGED <<exitc, idxw>>
               ELSE dpc' = "done" /\ exitc' = 70 /\ idxw' = idxw
          ELSE dpc' = "report" /\ idxw' = ~w.dryRun /\ exitc' = exitc
  /\ UNCHANGED <<vars, w, reported, report>>

DReport ==
  /\ dpc = "report"
  /\ reported' = ~w.quiet
  /\ report' = IF w.quiet THEN NoReport ELSE [c \in Status |-> {m \in DOMAIN proc : proc[m].st = c}]
  /\ dpc' = "exit"
  /\ UNCHANGED <<vars, w, exitc, idxw>>

DExit ==
  /\ dpc = "exit"
  /\ exitc' = IF \E m \in DOMAIN proc : proc[m].st \in {"missing", "failed"} THEN 79 ELSE 0
  /\ dpc' = "done"
  /\ UNCHANGED <<vars, w, reported, report, idxw>>

\* the script has ended; the self-loop lets TLC's deadlock check expose any OTHER state without successor
\* (a world the specification cannot finish would otherwise silently drop out of the exported scenarios)
DDone == dpc = "done" /\ UNCHANGED allvars
DNext == DArgs \/ DCompile \/ DIndex \/ DReport \/ DExit \/ DDone
DSpec == DInit /\ [][DNext]_allvars /\ WF_allvars(DArgs \/ DCompile \/ DIndex \/ DReport \/ DExit)

\* ---------------------------------------------------------------- observables and C20 formulas
\* module files created or replaced in the destination
Written(lg) == IF Fmt = "null" THEN {}       \* the null format hands every text to a writer that stores nothing
               ELSE {lg[i].name : i \in {j \in DOMAIN lg : lg[j].ev = "put" /\ lg[j].ans = "ok" /\ ~lg[j].flag}}
StatusSet(p, S) == {m \in DOMAIN p : p[m].st \in S}

\* the formulas are written over (world options, exit, report, status map, files) so that the trace
\* specification evaluates the same text on what the real script did
ExitZeroOnlyIfClean(ex, p) == ex = 0 => StatusSet(p, {"missing", "failed"}) = {}
Usage64(us, ex, files, idx, ncompiles) == us \notin {"none", "help"} => ex = 64 /\ files = {} /\ ~idx /\ ncompiles = 0
HelpDoesNothing(us, ex, files, idx, ncompiles) == us = "help" => ex = 0 /\ files = {} /\ ~idx /\ ncompiles = 0
ReportMatchesStatus(rep, isrep, p) == isrep => \A c \in Status : rep[c] = StatusSet(p, {c})
FilesAreReported(files, p, dry, nowrites) ==
  files = IF dry \/ nowrites \/ Fmt = "null" THEN {} ELSE StatusSet(p, {"compiled", "borrowed"})
IndexOnlyWhenAsked(idx, bi, dry) == idx => bi /\ ~dry

\* ---------------------------------------------------------------- what the stored OID index must say (C18, end to end)
\* OIDs the fixture modules define (the renderer writes them this way: see checks/clitools.module_text)
Ent == <<1, 3, 6, 1, 4, 1>>
AId == Ent \o <<4710>>
BId == Ent \o <<4711>>
BRootOf(wd) == (IF wd.imp \in {"BA", "both"} THEN AId ELSE BId) \o <<1>>
ARootOf(wd) == (IF wd.imp \in {"AB", "both"} THEN BRootOf(wd) ELSE AId) \o <<1>>
SmiOids == {<<1, 3>>, <<1, 3, 6>>, <<1, 3, 6, 1>>, <<1, 3, 6, 1, 1>>, <<1, 3, 6, 1, 2>>, <<1, 3, 6, 1, 2, 1>>, <<1, 3, 6, 1, 2, 1, 10>>,
            <<1, 3, 6, 1, 3>>, <<1, 3, 6, 1, 4>>, <<1, 3, 6, 1, 4, 1>>, <<1, 3, 6, 1, 5>>, <<1, 3, 6, 1, 6>>, <<1, 3, 6, 1, 6, 1>>,
            <<1, 3, 6, 1, 6, 2>>, <<1, 3, 6, 1, 6, 3>>, <<0, 0>>}
DefinesOf(wd, m) == CASE m = "AA-MIB" -> {AId, ARootOf(wd)} [] m = "BB-MIB" -> {BId, BRootOf(wd)}
                      [] m = "SNMPv2-SMI" -> SmiOids [] OTHER -> {}
IsPrefixOid(p, o) == Len(p) <= Len(o) /\ SubSeq(o, 1, Len(p)) = p
\* idx: set of [oid, mods] entries of the "oids" section.  A module is listed only under an OID it defines, and every OID of
\* a module stored in this run is covered by an entry that lists the module (component-wise prefix)
IndexOnlyDefines(idx, wd) == \A e \in idx : \A m \in e.mods : e.oid \in DefinesOf(wd, m)
IndexCovers(idx, wd, stored) == \A m \in stored : \A o \in DefinesOf(wd, m) : \E e \in idx : m \in e.mods /\ IsPrefixOid(e.oid, o)

Done == dpc = "done"
P_ExitZeroOnlyIfClean == Done /\ w.usage = "none" => ExitZeroOnlyIfClean(exitc, proc)
P_Usage64 == Done => Usage64(w.usage, exitc, Written(log), idxw, IF log = <<>> /\ proc = <<>> THEN 0 ELSE 1)
P_HelpDoesNothing == Done => HelpDoesNothing(w.usage, exitc, Written(log), idxw, IF log = <<>> /\ proc = <<>> THEN 0 ELSE 1)
P_ReportMatchesStatus == Done => ReportMatchesStatus(report, reported, proc)
P_FilesAreReported == Done /\ w.usage = "none" => FilesAreReported(Written(log), proc, w.dryRun, w.noWrites)
P_IndexOnlyWhenAsked == Done => IndexOnlyWhenAsked(idxw, w.buildIndex, w.dryRun)
\* the script ends for every world (no livelock in compile(), report and exit always reached or crash recorded)
DTermination == <>(dpc = "done")
\* design-level statement of the finding: a completed compile() is always followed by a report (fails for pysnmp + --build-index)
P_CompletedRunsReport == Done /\ w.usage = "none" /\ ~w.quiet /\ Written(log) # {} => reported
DTypeOK == /\ dpc \in {"args", "compile", "report", "exit", "done"}
           /\ exitc \in {255, 0, 1, 64, 70, 79}
           /\ TypeOK
=============================================================================
