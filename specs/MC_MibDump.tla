---- MODULE MC_MibDump ----
(* World slices and scenario export for MibDump.  A slice = record of field domains + filter *)
(* (sets of world records are never built: TLC pre-evaluates constant definitions eagerly).  *)
EXTENDS MibDump, Json
NoSrc(n) == {}
NoConstImp == <<>>
Src3 == {"ok", "broken", "missing"}
Dst3 == {"absent", "fresh", "stale"}
BB == BOOLEAN
FF == {FALSE}
TT == {TRUE}
D(us, rq, sa, s2, sb, al, su, im, sp, da, db, dk, rf, st, ba, bb, bs, nd, rb, ie, nw, dr, tx, bi, qu) ==
  [usage |-> us, req |-> rq, srcA |-> sa, src2A |-> s2, srcB |-> sb, alias |-> al, sub |-> su, imp |-> im, spell |-> sp, dstA |-> da, dstB |-> db, dstKind |-> dk, reqForm |-> rf, stubB |-> st,
   borA |-> ba, borB |-> bb, base |-> bs, noDeps |-> nd, rebuild |-> rb, ignoreErrors |-> ie, noWrites |-> nw,
   dryRun |-> dr, texts |-> tx, buildIndex |-> bi, quiet |-> qu]
KeepAll(x) == TRUE

\* usage errors and --help: whatever else is on the command line, nothing happens
Dom_usage == D({"help", "noMibs", "badOpt", "badFormat", "badLevel"}, {<<"AA-MIB">>}, {"ok"}, {"missing"}, {"ok"}, FF, FF, {"AB"}, {"exact"},
               {"absent"}, {"stale"}, {"dir"}, {"name"}, FF, FF, FF, TT, FF, FF, FF, FF, BB, {"no"}, BB, FF)

\* status slice: every source / destination / borrower state of two modules with A importing B, main flags
Dom_status == D({"none"}, {<<"AA-MIB">>, <<"BB-MIB", "AA-MIB">>}, Src3, {"missing"}, Src3, FF, FF, {"AB"}, {"exact"}, Dst3, Dst3, {"dir"}, {"name"}, FF, BB, BB, TT,
                BB, BB, BB, BB, BB, {"no"}, FF, FF)
Keep_status_q(x) == x.dstB # "stale" /\ (x.borA => x.srcA # "ok") /\ (x.noDeps => ~x.rebuild)

\* graph slice: import shapes (cycle included), alias file, base modules absent, request forms
Dom_graph == D({"none"}, {<<"AA-MIB">>, <<"BB-MIB">>, <<"afile">>, <<"BB-MIB", "afile">>, <<"afile", "AA-MIB">>},
               Src3, {"missing"}, Src3 \cup {"packed"}, BB, BB, {"none", "AB", "BA", "both"}, {"exact", "variant"}, {"absent"}, {"absent", "fresh"}, {"dir"}, {"name", "path"}, FF, FF, BB, BB,
               BB, FF, BB, BB, FF, {"no"}, FF, FF)
Keep_graph_q(x) == (x.srcB = "packed" => x.spell = "exact" /\ ~x.sub /\ x.reqForm = "name" /\ x.base) /\ (x.sub => x.srcB = "ok" /\ x.imp \in {"AB", "both"} /\ x.spell = "exact" /\ ~x.alias /\ x.dstB = "absent" /\ x.base /\ x.reqForm = "name")
                   /\ (x.reqForm = "path" => x.spell = "exact" /\ x.imp \in {"AB", "none"} /\ x.base /\ ~x.borB) /\ ~x.noWrites /\ (x.dstB = "fresh" => x.borB) /\ (x.spell = "variant" => x.imp # "none" /\ ~x.alias)

Keep_graph_t(x) == (x.srcB = "packed" => ~x.sub) /\ (x.sub => x.reqForm = "name" /\ x.spell = "exact") /\ (x.reqForm = "path" => x.spell = "exact")

\* sources slice: two source directories, the first / second holding a good / broken / no copy of AA-MIB
Dom_sources == D({"none"}, {<<"AA-MIB">>, <<"AA-MIB", "BB-MIB">>, <<"afile", "AA-MIB">>, <<"afile">>, <<"Aa-Mib">>}, Src3 \cup {"cut"}, Src3, Src3, BB, FF, {"AB", "BA"}, {"exact"},
                 {"absent", "fresh"}, {"absent"}, {"dir"}, {"name"}, FF, BB, FF, TT, BB, FF, BB, FF, FF, {"no"}, FF, FF)

\* liveness slice (small): cycle of imports by variant names, alias, every source state
Dom_live == D({"none", "badOpt"}, {<<"AA-MIB">>, <<"afile", "BB-MIB">>}, Src3, {"missing"}, Src3, BB, FF, {"both"}, {"exact", "variant"},
              {"absent"}, {"fresh"}, {"dir"}, {"name"}, FF, FF, TT, TT, BB, FF, BB, FF, FF, {"no"}, BB, FF)

\* destination slice: the destination "directory" is a regular file / a directory; index, ignore-errors, borrower
Dom_dest == D({"none"}, {<<"AA-MIB">>}, {"ok", "broken"}, {"missing"}, {"ok", "missing"}, FF, FF, {"AB", "none"}, {"exact"},
              {"absent", "fresh"}, {"absent"}, {"dir", "file"}, {"name", "path"}, FF, BB, FF, TT,
              BB, BB, BB, BB, BB, {"no"}, BB, BB)
Keep_dest_q(x) == (x.dstKind = "file" \/ x.reqForm = "path") /\ (x.quiet => x.buildIndex) /\ (x.noDeps => ~x.rebuild)

\* null format: nothing is stored whatever happens; statuses, report and exit as usual
Dom_null == D({"none"}, {<<"AA-MIB">>, <<"BB-MIB", "afile">>}, Src3, {"missing"}, Src3, BB, FF, {"AB", "both"}, {"exact"},
              {"absent"}, {"absent"}, {"dir"}, {"name"}, FF, FF, BB, TT,
              BB, FF, BB, BB, BB, {"no"}, BB, FF)

\* stub slice: --mib-stub=BB-MIB replaces the default stubs (base modules get compiled), pysnmp ships the base modules
Dom_stub == D({"none"}, {<<"AA-MIB">>, <<"BB-MIB">>}, {"ok"}, {"missing"}, Src3, FF, FF, {"AB", "none"}, {"exact"},
              {"absent", "fresh"}, {"absent"}, {"dir"}, {"name"}, BB, FF, BB, BB,
              FF, BB, BB, FF, FF, {"no"}, BB, FF)

\* reporting slice: index, quiet, texts/borrower flavour, dry-run / no-writes
Dom_report == D({"none"}, {<<"AA-MIB">>}, {"ok"}, {"missing"}, Src3, FF, FF, {"AB"}, {"exact"}, Dst3, {"absent"}, {"dir"}, {"name"}, FF, FF, BB, TT,
                FF, FF, BB, BB, BB, {"no", "before", "after"}, BB, BB)
Keep_report_q(x) == x.buildIndex \/ (x.texts = "no" /\ ~x.quiet)

Scen == [w |-> w, exit |-> exitc, reported |-> reported,
         report |-> [c \in Status |-> report[c]],
         proc |-> {[name |-> m, st |-> proc[m].st] : m \in DOMAIN proc},
         written |-> Written(log), idx |-> idxw]
\* quick tiers: the worlds of a slice are only ENUMERATED here (initial states, no step); the sampled ones are then run
\* to their end - with the property formulas as invariants - by the trace specifications
NoStep == FALSE /\ UNCHANGED allvars
ExportWorldInit == PrintT(ToJson([w |-> w]))
ExportWorld == (dpc = "done") => PrintT(ToJson([w |-> w]))
Export == (dpc = "done") => PrintT(ToJson(Scen))
====
