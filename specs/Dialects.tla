------------------------------ MODULE Dialects ------------------------------
(* C17: the nine grammar relaxations.  A dialect is a subset S of the options.*)
(*  - which subsets a parser can be built from (supportIndex rides on the     *)
(*    SMIv1 keywords);                                                        *)
(*  - the breakage table: for each option the malformed construct it is       *)
(*    documented to accept, as an edit of the token sequence of a well-formed *)
(*    host file (the tree must stay that of the host), or a construct that is *)
(*    only writable under the option (the tree is as written);                *)
(*  - monotonicity is checked along single steps S -> S + {o} (all inclusions *)
(*    are chains of such steps).                                              *)
EXTENDS Syntax

Options == {"supportSmiV1Keywords", "supportIndex", "commaAtTheEndOfImport", "commaAtTheEndOfSequence", "mixOfCommasAndSpaces",
            "uppercaseIdentifier", "lowcaseIdentifier", "curlyBracesAroundEnterpriseInTrap", "noCells"}
Buildable(S) == "supportIndex" \in S => "supportSmiV1Keywords" \in S
\* words that only the SMIv1-keyword dialects reserve (a text using them may parse differently there)
NewlyReserved(o) == IF o = "supportSmiV1Keywords" THEN {"NetworkAddress", "MAX"} ELSE {}

Host(decl, imp) == <<[name |-> "HOST-MIB", oid |-> FALSE, exports |-> FALSE, imports |-> imp, decls |-> <<decl>>]>>
VDecl == [k |-> "value", name |-> "lowName", form |-> 1]
OT(syn, idx) == [k |-> "objecttype", name |-> "lowName", syn |-> syn, units |-> FALSE, acckw |-> "ACCESS", descr |-> FALSE, ref |-> FALSE, idx |-> idx, aug |-> FALSE, defval |-> "none"]
\* edits: the broken text is the host's token sequence with `find` replaced by `repl`; the tree must be the host's
Edits == {
  [opt |-> "commaAtTheEndOfImport", host |-> Host(VDecl, 1), find |-> <<"a-one", "FROM">>, repl |-> <<"a-one", ",", "FROM">>],
  [opt |-> "commaAtTheEndOfImport", host |-> Host(VDecl, 2), find |-> <<"c3", "FROM">>, repl |-> <<"c3", ",", "FROM">>],
  [opt |-> "commaAtTheEndOfSequence", host |-> Host([k |-> "type", name |-> "UpName", variant |-> "sequence"], 0), find |-> <<"STRING", "}">>, repl |-> <<"STRING", ",", "}">>],
  [opt |-> "mixOfCommasAndSpaces", host |-> Host([k |-> "type", name |-> "UpName", variant |-> "enum"], 0), find |-> <<")", ",", "two">>, repl |-> <<")", "two">>],
  [opt |-> "mixOfCommasAndSpaces", host |-> Host([k |-> "type", name |-> "UpName", variant |-> "enum"], 0), find |-> <<"2", ")", "}">>, repl |-> <<"2", ")", ",", "}">>],
  [opt |-> "mixOfCommasAndSpaces", host |-> Host([k |-> "tc", name |-> "UpName", variant |-> "enum", hint |-> FALSE, ref |-> FALSE], 0), find |-> <<")", ",", "two">>, repl |-> <<")", "two">>],
  [opt |-> "curlyBracesAroundEnterpriseInTrap", host |-> Host([k |-> "trap", name |-> "lowName", n |-> 1, descr |-> TRUE, ref |-> FALSE], 0),
   find |-> <<"ENTERPRISE", "someNode">>, repl |-> <<"ENTERPRISE", "{", "someNode", "}">>],
  [opt |-> "curlyBracesAroundEnterpriseInTrap", host |-> Host([k |-> "trap", name |-> "with-Hyphen9", n |-> 0, descr |-> FALSE, ref |-> FALSE], 1),
   find |-> <<"ENTERPRISE", "someNode">>, repl |-> <<"ENTERPRISE", "{", "someNode", "}">>],
  [opt |-> "noCells", host |-> Host([k |-> "capsupports", name |-> "lowName"], 0), find |-> <<"{", "a-one", "}", "DESCRIPTION">>, repl |-> <<"{", "}", "DESCRIPTION">>] }
\* constructs that can only be written under an option; the tree is as written
Writable == {
  [opt |-> "uppercaseIdentifier", host |-> Host([k |-> "type", name |-> "UpName", variant |-> "enumup"], 0), needs |-> {"uppercaseIdentifier"}, rejectedWithout |-> TRUE],
  [opt |-> "lowcaseIdentifier", host |-> Host([k |-> "notification", name |-> "UpNotif", n |-> 1, ref |-> FALSE], 1), needs |-> {"lowcaseIdentifier"}, rejectedWithout |-> TRUE],
  [opt |-> "supportIndex", host |-> Host(OT("INTEGER", 9), 0), needs |-> {"supportIndex", "supportSmiV1Keywords"}, rejectedWithout |-> TRUE],
  [opt |-> "supportSmiV1Keywords", host |-> Host(OT("netaddr", 0), 0), needs |-> {"supportSmiV1Keywords"}, rejectedWithout |-> FALSE] }

\* first occurrence of `find` in toks replaced by `repl`
RECURSIVE FindAt(_, _, _)
FindAt(toks, find, i) == IF i + Len(find) - 1 > Len(toks) THEN 0 ELSE IF SubSeq(toks, i, i + Len(find) - 1) = find THEN i ELSE FindAt(toks, find, i + 1)
Broken(e) == LET t == FileToks(e.host) i == FindAt(t, e.find, 1) IN SubSeq(t, 1, i - 1) \o e.repl \o SubSeq(t, i + Len(e.find), Len(t))

\* ---- scenario enumeration: a buildable dialect S and what is tried under it
VARIABLES S, what
dvars == <<file, offset, S, what>>
None == [k |-> "-"]
DInit == file = <<>> /\ offset = 0 /\ S \in {x \in SUBSET Options : Buildable(x)} /\ what = None
Pick == /\ what = None /\ UNCHANGED <<file, offset, S>>
        /\ \/ \E e \in Edits : what' = [k |-> "edit", e |-> e]
           \/ \E w \in Writable : what' = [k |-> "writable", w |-> w]
           \/ \E o \in Options \ S : Buildable(S \cup {o}) /\ what' = [k |-> "step", o |-> o]
DNext == Pick
=============================================================================
