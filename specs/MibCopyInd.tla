---------------------------- MODULE MibCopyInd ----------------------------
(* Unbounded argument for mibcopy's LatestWins: an inductive invariant of the *)
(* visiting loop of MibCopy.tla (intended design, no deviation), discharged   *)
(* by Apalache for ANY number of source files, revisions (naturals), and ANY  *)
(* initial destination over two module names:                                 *)
(*     IndInit => IndInv          (--init=IndInit --inv=IndInv --length=0)    *)
(*     IndInv /\ Next => IndInv'  (--init=IndInit --inv=IndInv --length=1)    *)
(*     IndInv /\ todo = {} => LatestWins                       (--inv=Goal)   *)
(* The state is that of MibCopy.tla restricted to parsable files (an          *)
(* unparsable file only bumps a counter) with the counters dropped.           *)
EXTENDS Integers, FiniteSets, Apalache

\* @typeAlias: copy = {mod: Str, rev: Int, id: Int};
MibCopyInd_aliases == TRUE

Names == {"AA-MIB", "BB-MIB"}
\* @type: $copy;
NoCopy == [mod |-> "-", rev |-> 0, id |-> 0]
NotCached == -1
NoneRev == -2

VARIABLES
  \* @type: Set($copy);
  todo,
  \* @type: Set($copy);
  seen,
  \* @type: Str -> $copy;
  dest,
  \* @type: Str -> $copy;
  dest0,
  \* @type: Str -> Int;
  cache

\* @type: ($copy) => Bool;
Visit(f) ==
  /\ f \in todo /\ todo' = todo \ {f} /\ seen' = seen \union {f} /\ dest0' = dest0
  /\ LET n == f.mod
         dstParsed == IF dest[n] = NoCopy THEN NoneRev ELSE dest[n].rev
         dstRev == IF cache[n] /= NotCached THEN cache[n] ELSE dstParsed
         keep == dstRev /= NoneRev /\ dstRev >= f.rev
     IN IF keep
        THEN /\ cache' = [cache EXCEPT ![n] = dstRev] /\ dest' = dest
        ELSE /\ dest' = [dest EXCEPT ![n] = f] /\ cache' = [cache EXCEPT ![n] = f.rev]
Next == \E f \in todo : Visit(f)

\* @type: ($copy) => Bool;
FileOK(f) == f.mod \in Names /\ f.rev >= 0 /\ f.id >= 1
\* @type: ($copy, Str) => Bool;
CopyOK(c, n) == c = NoCopy \/ (c.mod = n /\ c.rev >= 0 /\ c.id <= -1)     \* initial copies carry negative ids

IndInv ==
  /\ DOMAIN dest = Names /\ DOMAIN dest0 = Names /\ DOMAIN cache = Names
  /\ \A f \in todo \union seen : FileOK(f)
  /\ todo \intersect seen = {}
  /\ \A n \in Names : CopyOK(dest0[n], n)
  /\ \A n \in Names :
       LET S == {f \in seen : f.mod = n} IN
       /\ (S = {}) => (dest[n] = dest0[n] /\ cache[n] = NotCached)
       /\ (S /= {}) =>
            /\ dest[n] /= NoCopy /\ (dest[n] \in S \/ dest[n] = dest0[n])
            /\ \A f \in S : f.rev <= dest[n].rev
            /\ (dest0[n] /= NoCopy => dest0[n].rev <= dest[n].rev)
            /\ cache[n] = dest[n].rev

IndInit ==
  /\ todo = Gen(5) /\ seen = Gen(5) /\ dest = Gen(2) /\ dest0 = Gen(2) /\ cache = Gen(2)
  /\ IndInv

\* the property: after all visits, every module seen has - under its own name - a copy of that module whose
\* revision is the maximum over the files seen and the initial destination
Goal == (todo = {}) =>
  \A n \in Names : LET S == {f \in seen : f.mod = n} IN S /= {} =>
     /\ dest[n] /= NoCopy /\ dest[n].mod = n
     /\ \A f \in S : f.rev <= dest[n].rev
     /\ (dest0[n] /= NoCopy => dest0[n].rev <= dest[n].rev)
     /\ (dest[n] \in S \/ dest[n] = dest0[n])
\* the real initial states are instances of the invariant
RealInit ==
  /\ todo = Gen(5) /\ seen = {} /\ dest0 = Gen(2) /\ dest = dest0
  /\ cache = [n \in Names |-> NotCached]
  /\ DOMAIN dest0 = Names /\ \A n \in Names : CopyOK(dest0[n], n)
  /\ \A f \in todo : FileOK(f)
=============================================================================
