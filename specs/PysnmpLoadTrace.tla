---- MODULE PysnmpLoadTrace ----
(* C04 monitor over what the real MibBuilder did with the generated texts, and the per-symbol agreement with the JSON backend. *)
EXTENDS Naturals, Sequences, FiniteSets, TLC, Json, IOUtils, TLCExt
VARIABLE tid
Traces == JsonDeserialize(IOEnv.TRACE_FILE)
T == Traces[tid]
Init == tid \in 1..Len(Traces)
Next == FALSE /\ UNCHANGED tid
SetOf(s) == {s[i] : i \in DOMAIN s}
Mods == T.mods
\* every generated text is valid Python
Compilable == \A i \in DOMAIN Mods : Mods[i].compilable
\* every import of a generated module finds the symbol among that module's exports (the export list of a module
\* is only known when the module ran to its end: not for the members of an import cycle, which pysnmp cannot load)
ImportOnlyExported == \A i \in DOMAIN T.imports :
   (T.imports[i].generated /\ T.imports[i].from_loaded) => T.imports[i].sym \in SetOf(T.imports[i].exports)
\* no class or object is used before it is defined (NameError while executing the text)
UseAfterDefine == \A i \in DOMAIN Mods : ~Mods[i].nameerror
\* the set loads together, in the order asked for
LoadsTogether == T.cyclic \/ \A i \in DOMAIN Mods : Mods[i].loaded
\* every symbol of the JSON document is defined and exported under its name ...
DefinesAndExportsAll == \A i \in DOMAIN T.syms : (T.syms[i].modloaded) => T.syms[i].exported
\* ... with the same OID, kind, base type and access
AgreesWithJson == \A i \in DOMAIN T.syms : (T.syms[i].modloaded /\ T.syms[i].exported) =>
   /\ T.syms[i].joid = T.syms[i].poid
   /\ T.syms[i].jkind = T.syms[i].pkind
   /\ T.syms[i].jbase = T.syms[i].pbase
   /\ T.syms[i].jaccess = T.syms[i].paccess
Checks == << <<"Compilable", Compilable>>, <<"ImportOnlyExported", ImportOnlyExported>>, <<"UseAfterDefine", UseAfterDefine>>,
             <<"LoadsTogether", LoadsTogether>>, <<"DefinesAndExportsAll", DefinesAndExportsAll>>, <<"AgreesWithJson", AgreesWithJson>> >>
Report == PrintT(ToJson([id |-> T.id, failed |-> {Checks[i][1] : i \in {j \in DOMAIN Checks : ~Checks[j][2]}}]))
====
