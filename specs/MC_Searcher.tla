---- MODULE MC_Searcher ----
EXTENDS Searcher, Json
Export == (answer # "-") => PrintT(ToJson([cfg |-> cfg, predicted |-> answer]))
====
