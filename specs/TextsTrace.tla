---- MODULE TextsTrace ----
(* C15 monitor *)
EXTENDS Texts, Json, IOUtils, TLCExt
VARIABLE tid
Traces == JsonDeserialize(IOEnv.TRACE_FILE)
T == Traces[tid]
TInit == tid \in 1..Len(Traces) /\ sc = T.sc
TNext == FALSE /\ UNCHANGED <<vars, tid>>
O == T.obs
Compiled == O.status = "compiled"
\* an empty text need not be emitted at all; a non-empty one must be there exactly when it is due
Due == Emitted(sc.clause, sc.genTexts)
OnlyWhenRequested == Compiled =>
   /\ O.json.present => Due
   /\ (Due /\ sc.text # <<>>) => O.json.present
   /\ (T.pysnmp /\ O.py.loads /\ sc.clause # "REVDESC") => ((O.py.present => Due) /\ ((Due /\ Canon(sc.text) # <<>>) => O.py.present))
JsonExact == (Compiled /\ O.json.present) =>
   IF sc.clause \in Filtered \/ sc.filter = "identity" THEN O.json.text = ExpectedJson(sc.clause, sc.filter, sc.text)
   ELSE Normalise(O.json.text) = Normalise(sc.text)          \* unfiltered clauses: either spelling of whitespace
PysnmpEqual == (Compiled /\ T.pysnmp /\ sc.clause # "REVDESC" /\ O.py.present) => EqUpToWs(O.py.text, sc.text)
AlwaysCompilable == T.pysnmp => O.py.loads
Checks == << <<"Compiles", Compiled>>, <<"OnlyWhenRequested", OnlyWhenRequested>>, <<"JsonExact", JsonExact>>, <<"PysnmpEqual", PysnmpEqual>>,
             <<"AlwaysCompilable", AlwaysCompilable>> >>
Report == PrintT(ToJson([id |-> T.id, failed |-> {Checks[i][1] : i \in {j \in DOMAIN Checks : ~Checks[j][2]}}]))
====
