--------------------------- MODULE MibCopyTrace ---------------------------
(* Batch validation of observed mibcopy runs.  One trace = the source files, *)
(* the initial destination, the visiting order (as the script reported it)   *)
(* and the observation: which copy lies under which name afterwards, which   *)
(* files were reported COPIED / NOT COPIED / FAILED, stray names, exit.      *)
(*  - refinement: MibCopy's Visit is replayed along the observed order and   *)
(*    its terminal state compared with the observation;                       *)
(*  - monitor: LatestWins / OthersUntouched / Accounting on the observation.  *)
EXTENDS MC_MibCopy, IOUtils, TLCExt
VARIABLES tid, l
Traces == JsonDeserialize(IOEnv.TRACE_FILE)
T == Traces[tid]
O == T.obs
Rng(s) == {s[i] : i \in DOMAIN s}
FilesOf(t) == Rng(t.files)
CopyOf(c) == [mod |-> c.mod, rev |-> c.rev, id |-> c.id]
DestOf(d) == [n \in Names |-> CopyOf(d[n])]

TInit == /\ tid \in 1..Len(Traces) /\ l = 1
         /\ srcs = {CopyOf(f) : f \in FilesOf(Traces[tid])} /\ todo = srcs
         /\ dest0 = DestOf(Traces[tid].dest0) /\ dest = dest0
         /\ cache = [n \in Names |-> NotCached] /\ order = <<>>
         /\ seen = 0 /\ copied = {} /\ failedn = 0 /\ notcopied = {} /\ lastrev = 0
         /\ usage = Traces[tid].usage /\ exitc = 255
TNext == \/ /\ l <= Len(T.order)
            /\ \E f \in todo : f.id = T.order[l] /\ Visit(f)
            /\ l' = l + 1 /\ tid' = tid
         \/ /\ (Args \/ (l > Len(T.order) /\ Finish)) /\ UNCHANGED <<l, tid>>
TSpec == TInit /\ [][TNext]_<<vars, tid, l>>

ODest == DestOf(O.dest)
Failed ==
  {n \in {"LatestWins", "OthersUntouched", "Accounting", "ExitZero"} :
     CASE n = "LatestWins" -> ~(LatestWins(ODest, dest0, Visited) /\ O.strays = <<>>)
       [] n = "OthersUntouched" -> ~OthersUntouched(ODest, dest0, Visited)
       [] n = "Accounting" -> O.totals /\ ~Accounting(Visited, Rng(O.copied), Rng(O.notcopied), O.failed, O.seen)
       [] n = "ExitZero" -> IF usage = "none" THEN O.exit # 0
                            ELSE ~(O.exit = (IF usage = "help" THEN 0 ELSE 64) /\ ODest = dest0 /\ O.strays = <<>> /\ O.copied = <<>>)}      \* (124 = cut off by the harness: the script did not end)
Drift ==
  IF O.exit # exitc THEN "exit"
  ELSE IF Len(T.order) # Cardinality(Visited) THEN "order"
  ELSE IF ODest # dest THEN "dest"
  ELSE IF Rng(O.copied) # copied THEN "copied"
  ELSE IF Rng(O.notcopied) # notcopied THEN "notcopied"
  ELSE IF O.totals /\ O.failed # failedn THEN "failed"
  ELSE "ok"
Report == (exitc # 255) =>
   PrintT(ToJson([id |-> T.id, failed |-> Failed, drift |-> Drift, mdest |-> [n \in Names |-> dest[n].id]]))
=============================================================================
