-------------------------- MODULE AtomicWriteTrace --------------------------
(* Trace validation for the file writers (C13).  A trace = the system calls  *)
(* the REAL putData() made (in schedule order, with results) and a snapshot   *)
(* of the destination directory after every call.                             *)
(*  refinement: each event must be the AtomicWrite step of that writer, with  *)
(*              the same call, result and resulting filesystem state;         *)
(*  monitor:    the C13 formulas evaluated on the observed snapshots only.    *)
EXTENDS AtomicWrite, Json, IOUtils, TLCExt
VARIABLES tid, l, driftAt
Traces == JsonDeserialize(IOEnv.TRACE_FILE)
T == Traces[tid]
E(i) == T.events[i]
N == Len(T.events)

TInit ==
  /\ tid \in 1..Len(Traces) /\ l = 1 /\ driftAt = 0
  /\ pc = [w \in Writers |-> IF T.dry THEN "returned" ELSE "exists"]
  /\ fault = [w \in Writers |-> T.faults[w]]
  /\ dry = T.dry /\ dest0 = T.dest0 /\ dirExists = T.dir0
  /\ dest = D(T.dest0, NoW) /\ temps = [w \in Writers |-> "none"] /\ pyc = FALSE
  /\ cls = [w \in Writers |-> "-"] /\ hist = <<>>

ObsDest(e) == IF e.dest.k = "new" \/ e.dest.k = "partial" THEN D(e.dest.k, e.dest.w) ELSE D(e.dest.k, NoW)
Matches(e) == /\ hist'[Len(hist')] = <<e.w, e.call, e.res>>
              /\ dest' = ObsDest(e)
              /\ \A w \in Writers : temps'[w] = e.temps[w]
TStep ==
  /\ l <= N /\ driftAt = 0
  /\ LET e == E(l) IN
     \/ /\ Step(e.w) /\ Matches(e) /\ l' = l + 1 /\ UNCHANGED <<tid, driftAt>>
     \/ /\ ~ENABLED (Step(e.w) /\ Matches(e))
        /\ driftAt' = l /\ UNCHANGED <<vars, tid, l>>
TSpec == TInit /\ [][TStep]_<<vars, tid, l, driftAt>>

\* ---- monitor over the observation
WriterEvents(w) == {i \in 1..N : E(i).w = w}
LastOf(w) == CHOOSE i \in WriterEvents(w) : \A j \in WriterEvents(w) : j <= i
Returned(w) == T.final[w][1] = "returned"
CompileFailed == \E i \in 1..N : E(i).call = "pycompile" /\ E(i).res = "err"
ONeverPartial == (\A i \in 1..N : E(i).dest.k \in {"absent", "old", "new"}) /\ T.end.dest.k \in {"absent", "old", "new"}
ONoTempLeft == (\A w \in Writers : T.end.temps[w] = "none") /\ T.end.foreign = <<>>
ORaisedIsWriterError == \A w \in Writers : T.final[w][1] # "returned" => T.final[w] = <<"raised", "PySmiWriterError">>
OReturnedMeansStored == \A w \in Writers : (Returned(w) /\ ~T.dry) => (WriterEvents(w) # {} /\ E(LastOf(w)).dest.k = "new")
ORaisedKeeps == \/ T.end.dest.k = "new" \/ (T.end.dest.k = T.dest0 /\ T.end.dest.k \in {"absent", "old"})
                \/ (T.end.dest.k = "absent" /\ Kind = "py" /\ CompileFailed)
OFailureSurfaces == \A i \in 1..N : (E(i).res = "err" /\ E(i).call \in IoSteps) => T.final[E(i).w][1] = "raised"
ODryRunInert == T.dry => (N = 0 /\ T.unchanged /\ \A w \in Writers : Returned(w))
Checks == << <<"NeverPartial", ONeverPartial>>, <<"NoTempLeft", ONoTempLeft>>, <<"RaisedIsWriterError", ORaisedIsWriterError>>,
             <<"ReturnedMeansStored", OReturnedMeansStored>>, <<"RaisedKeeps", ORaisedKeeps>>, <<"FailureSurfaces", OFailureSurfaces>>, <<"DryRunInert", ODryRunInert>> >>
Failed == {Checks[i][1] : i \in {j \in DOMAIN Checks : ~Checks[j][2]}}
FinalOk == \A w \in Writers : pc[w] = T.final[w][1] /\ (pc[w] = "raised" => cls[w] = T.final[w][2])
Done == (l > N) \/ driftAt # 0
Report == Done => PrintT(ToJson([id |-> T.id, refine |-> IF driftAt = 0 /\ FinalOk THEN "ok" ELSE "drift",
                                  at |-> IF driftAt # 0 THEN driftAt ELSE IF FinalOk THEN 0 ELSE N + 1, failed |-> Failed]))
=============================================================================
