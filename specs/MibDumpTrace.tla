--------------------------- MODULE MibDumpTrace ---------------------------
(* Batch validation of observed mibdump runs.  One trace = one run of the    *)
(* real script on a materialised world: the world itself plus what was       *)
(* observed (exit status, parsed stderr report, status map returned by       *)
(* compile() in that very run, files created / replaced / removed).          *)
(*  - monitor: the C20 formulas of MibDump are evaluated on the observation  *)
(*  - refinement: MibDump is run from the same world (it is deterministic)   *)
(*    and its terminal state is compared with the observation, component by  *)
(*    component; the first differing component is named.                     *)
EXTENDS MC_MibDump, IOUtils, TLCExt
VARIABLES tid
Traces == JsonDeserialize(IOEnv.TRACE_FILE)
T == Traces[tid]
O == T.obs
ProcOf(ps) == LET names == {ps[i].name : i \in DOMAIN ps} IN
              [m \in names |-> [st |-> ps[CHOOSE i \in DOMAIN ps : ps[i].name = m].st, err |-> NoErr]]
OProc == ProcOf(O.proc)
ORep == [c \in Status |-> Rng(O.report[c])]
OFiles == Rng(O.written)

OIdx == {[oid |-> O.index[i].oid, mods |-> Rng(O.index[i].mods)] : i \in DOMAIN O.index}
\* the destination held no index before the run (fixture), so the index written is the index of this run's compiled modules
TInit == /\ tid \in 1..Len(Traces) /\ DInitW(Traces[tid].w)
TNext == DNext /\ UNCHANGED tid
TSpec == TInit /\ [][TNext]_<<allvars, tid>>

Failed ==
  {n \in {"IndexOnlyDefines", "IndexCovers", "Terminates", "ExitZeroOnlyIfClean", "Usage64", "HelpDoesNothing", "ReportMatchesStatus", "FilesAreReported", "IndexOnlyWhenAsked"} :
     CASE n = "IndexOnlyDefines" -> O.idx /\ ~IndexOnlyDefines(OIdx, w)
       [] n = "IndexCovers" -> O.idx /\ ~IndexCovers(OIdx, w, StatusSet(OProc, {"compiled"}))
       [] n = "Terminates" -> O.exit = 124      \* the harness cut the run off: the script did not end
       [] n = "ExitZeroOnlyIfClean" -> w.usage = "none" /\ ~ExitZeroOnlyIfClean(O.exit, OProc)
       [] n = "Usage64" -> ~Usage64(w.usage, O.exit, OFiles \cup Rng(O.removed), O.idx, O.ncompiles)
       [] n = "HelpDoesNothing" -> ~HelpDoesNothing(w.usage, O.exit, OFiles \cup Rng(O.removed), O.idx, O.ncompiles)
       [] n = "ReportMatchesStatus" -> O.ncompiles = 1 /\ O.completed /\ ~ReportMatchesStatus(ORep, O.reported, OProc)
       [] n = "FilesAreReported" -> w.usage = "none" /\ O.ncompiles = 1 /\ O.completed
                                    /\ ~(FilesAreReported(OFiles, OProc, w.dryRun, w.noWrites) /\ O.removed = <<>>)
       [] n = "IndexOnlyWhenAsked" -> ~IndexOnlyWhenAsked(O.idx, w.buildIndex, w.dryRun)}
\* a run whose compile() returned but which printed no report although not --quiet
\* and which created or replaced files: they are reported nowhere
NoReportAfterCompile == w.usage = "none" /\ ~w.quiet /\ O.ncompiles = 1 /\ O.completed /\ ~O.reported /\ OFiles # {}

Drift ==
  IF O.exit # exitc THEN "exit"
  ELSE IF O.ncompiles # (IF w.usage = "none" THEN 1 ELSE 0) THEN "ncompiles"
  ELSE IF O.ncompiles = 1 /\ O.completed /\ DOMAIN OProc # DOMAIN proc THEN "modules"
  ELSE IF O.ncompiles = 1 /\ O.completed /\ \E m \in DOMAIN proc : proc[m].st # OProc[m].st THEN "status"
  ELSE IF O.reported # reported THEN "reported"
  ELSE IF O.reported /\ \E c \in Status : ORep[c] # report[c] THEN "report"
  ELSE IF OFiles # Written(log) THEN "files"
  ELSE IF O.idx # idxw THEN "index"
  ELSE "ok"

Report == (dpc = "done") =>
   PrintT(ToJson([id |-> T.id, failed |-> Failed, noreport |-> NoReportAfterCompile, drift |-> Drift,
                  mexit |-> exitc, mproc |-> {[name |-> m, st |-> proc[m].st] : m \in DOMAIN proc},
                  mfiles |-> Written(log)]))
=============================================================================
