----------------------------- MODULE PysnmpLoad -----------------------------
(* C04: executing generated pysnmp modules against a MIB builder.  The       *)
(* builder is a small state machine: loading a module executes its text,     *)
(* which imports symbols from other modules (loading them on demand, nested), *)
(* defines objects, and finally exports them.  A set of generated modules     *)
(* "loads together" when every import finds its symbol exported.              *)
EXTENDS Naturals, Sequences, FiniteSets, TLC

CONSTANTS Gen,            \* the generated modules of the scenario
          WantsChoices,   \* set of functions m -> sequence of [from, syms] import requests the text of m makes, in order
          Exports,        \* Exports[m]: set of names the text of m passes to exportSymbols
          OrderChoices    \* set of orders in which the user may ask for the modules

VARIABLES Wants, Order, loaded, stack, pcs, exported, log, failed
vars == <<Wants, Order, loaded, stack, pcs, exported, log, failed>>
Top == stack[Len(stack)]
Init == Wants \in WantsChoices /\ Order \in OrderChoices /\ loaded = {} /\ stack = <<>> /\ pcs = [m \in Gen |-> 1] /\ exported = [m \in Gen |-> {}] /\ log = <<>> /\ failed = {}

\* the user (or an import) asks for module m
Begin(m) == /\ m \in Gen /\ m \notin loaded /\ m \notin failed /\ ~\E i \in DOMAIN stack : stack[i] = m
            /\ stack' = Append(stack, m) /\ log' = Append(log, <<"begin", m>>)
            /\ UNCHANGED <<Wants, Order, loaded, pcs, exported, failed>>
\* the module on top of the stack performs its next import
ImportStep ==
  /\ stack # <<>> /\ pcs[Top] <= Len(Wants[Top])
  /\ LET w == Wants[Top][pcs[Top]] IN
     IF w.from \in Gen /\ w.from \notin loaded /\ w.from \notin failed /\ ~\E i \in DOMAIN stack : stack[i] = w.from
     THEN \* nested load of the exporting module first
          /\ stack' = Append(stack, w.from) /\ log' = Append(log, <<"begin", w.from>>)
          /\ UNCHANGED <<Wants, Order, loaded, pcs, exported, failed>>
     ELSE IF w.from \in Gen /\ ~(w.syms \subseteq exported[w.from])
          THEN \* the symbol is not (yet) exported: the importing module fails - and everything below it on the stack
               /\ failed' = failed \cup {stack[i] : i \in DOMAIN stack}
               /\ log' = Append(log, <<"importerror", Top>>) /\ stack' = <<>>
               /\ UNCHANGED <<Wants, Order, loaded, pcs, exported>>
          ELSE /\ pcs' = [pcs EXCEPT ![Top] = @ + 1] /\ log' = Append(log, <<"import", Top>>)
               /\ UNCHANGED <<Wants, Order, loaded, stack, exported, failed>>
\* all imports done: definitions are executed and the symbols exported
Finish ==
  /\ stack # <<>> /\ pcs[Top] > Len(Wants[Top])
  /\ exported' = [exported EXCEPT ![Top] = Exports[Top]]
  /\ loaded' = loaded \cup {Top} /\ stack' = SubSeq(stack, 1, Len(stack) - 1)
  /\ log' = Append(log, <<"end", Top>>) /\ UNCHANGED <<Wants, Order, pcs, failed>>
UserAsks == stack = <<>> /\ \E i \in DOMAIN Order : Order[i] \notin loaded \cup failed /\ (\A j \in 1..(i - 1) : Order[j] \in loaded \cup failed) /\ Begin(Order[i])
Next == UserAsks \/ ImportStep \/ Finish
Spec == Init /\ [][Next]_vars
Done == stack = <<>> /\ \A i \in DOMAIN Order : Order[i] \in loaded \cup failed

\* the design-level property: a module set whose imports are all exported (and free of import cycles) loads completely
ImportsSatisfiable == \A m \in Gen : \A i \in DOMAIN Wants[m] : Wants[m][i].from \in Gen => Wants[m][i].syms \subseteq Exports[Wants[m][i].from]
ImportsFrom(m) == {Wants[m][i].from : i \in DOMAIN Wants[m]} \cap Gen
RECURSIVE Reach(_, _)
Reach(S, k) == IF k = 0 THEN S ELSE Reach(S \cup UNION {ImportsFrom(x) : x \in S}, k - 1)
Acyclic == \A m \in Gen : m \notin Reach(ImportsFrom(m), Cardinality(Gen))
LoadsTogether == (Done /\ ImportsSatisfiable /\ Acyclic) => failed = {}
\* and the converse: an unsatisfiable import makes the importer fail, never load silently
FailsWhenMissing == Done => \A m \in Gen : (\E i \in DOMAIN Wants[m] : Wants[m][i].from \in Gen /\ ~(Wants[m][i].syms \subseteq Exports[Wants[m][i].from])) => m \in failed
=============================================================================
