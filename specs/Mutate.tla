------------------------------- MODULE Mutate -------------------------------
(* C11: malformed input.  A well-formed file of Syntax.tla (tokens + fillers) *)
(* is damaged by one token-level mutation - delete, duplicate, replace or     *)
(* insert, with tokens from an alphabet that contains lexically illegal       *)
(* items - or truncated at any character.  The model knows where each token   *)
(* starts (line map) and where modules begin and end, so it can say what the  *)
(* parser is allowed to answer.                                               *)
EXTENDS Syntax

\* lexically illegal: a forbidden ASN.1 word, a number beyond 64 bits, an identifier ending in a hyphen, an illegal character,
\* a non-ASCII character; the rest are legal tokens in the wrong place
Illegal == {"ABSENT", "@TOOBIG", "@NEGTOOBIG", "bad-", "Bad-", "@BANG", "@NONASCII"}
Alphabet == Illegal \cup {",", "END", "BEGIN", "::=", "extraWord", "{", "7", "\"text\"", "SYNTAX"}

VARIABLES mut          \* [op, i, t] ; file/offset (from Syntax) hold the base file
mvars == <<file, offset, mut>>
NoMut == [op |-> "none", i |-> 0, t |-> "-"]

BaseToks == FileToks(file)
BaseFills == Fills(BaseToks, offset) \o <<"LF">>        \* the filler after the last token
\* mutated (token, filler-after) sequences
Ins(s, i, x) == SubSeq(s, 1, i - 1) \o <<x>> \o SubSeq(s, i, Len(s))
Del(s, i) == SubSeq(s, 1, i - 1) \o SubSeq(s, i + 1, Len(s))
MutToks(m) == CASE m.op = "delete" -> Del(BaseToks, m.i)
                [] m.op = "duplicate" -> Ins(BaseToks, m.i, BaseToks[m.i])
                [] m.op = "replace" -> [BaseToks EXCEPT ![m.i] = m.t]
                [] m.op = "insert" -> Ins(BaseToks, m.i, m.t)
                [] OTHER -> BaseToks
\* "nothing" between two tokens is only possible next to punctuation: after a mutation such gaps get a blank
FixFills(toks, fl) == [g \in DOMAIN fl |-> IF g < Len(toks) /\ fl[g] = "NONE" /\ ~CanAbut(toks[g], toks[g + 1]) THEN "SP" ELSE fl[g]]
RawFills(m) == CASE m.op = "delete" -> Del(BaseFills, m.i)
                 [] m.op \in {"duplicate", "insert"} -> Ins(BaseFills, m.i, "SP")
                 [] OTHER -> BaseFills
MutFills(m) == FixFills(MutToks(m), RawFills(m))
RECURSIVE LinesFrom(_, _, _)
LinesFrom(fl, i, cur) == IF i > Len(fl) THEN <<>> ELSE <<cur>> \o LinesFrom(fl, i + 1, cur + NewLines(fl[i]))
MutLines(m) == LinesFrom(MutFills(m), 1, 1)           \* line on which each token of the mutated text starts
RECURSIVE SumNL(_, _)
SumNL(fl, i) == IF i > Len(fl) THEN 0 ELSE NewLines(fl[i]) + SumNL(fl, i + 1)
TotalLines(m) == 1 + SumNL(MutFills(m), 1)

\* module spans in the base token sequence: index of the module name and of its END
RECURSIVE Spans(_, _)
Spans(f, start) == IF f = <<>> THEN <<>> ELSE <<[from |-> start, to |-> start + Len(ModToks(f[1])) - 1]>> \o Spans(Tail(f), start + Len(ModToks(f[1])))
ModSpans == Spans(file, 1)
\* a cut after k complete tokens (and possibly inside token k+1) is inside a module unless it falls between modules
InsideModule(k, partial) == \E s \in {ModSpans[j] : j \in DOMAIN ModSpans} : (k >= s.from /\ k < s.to) \/ (partial /\ k + 1 >= s.from /\ k + 1 <= s.to)
CompleteBefore(k) == Cardinality({j \in DOMAIN ModSpans : ModSpans[j].to <= k})

MInit == offset \in {0, 4} /\ mut = NoMut /\ \E x \in ModOptions : file = <<EmptyMod("FIRST-MIB", x[1], x[2], x[3])>>
Grow == mut = NoMut /\ Next /\ mut' = mut
Mutate == /\ mut = NoMut /\ Len(file[1].decls) >= 1
          /\ \E i \in DOMAIN BaseToks :
               \/ mut' = [op |-> "delete", i |-> i, t |-> "-"]
               \/ mut' = [op |-> "duplicate", i |-> i, t |-> "-"]
               \/ \E t \in Alphabet : mut' = [op |-> "replace", i |-> i, t |-> t] \/ mut' = [op |-> "insert", i |-> i, t |-> t]
          /\ UNCHANGED <<file, offset>>
MNext == Grow \/ Mutate
=============================================================================
