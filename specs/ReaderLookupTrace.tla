---- MODULE ReaderLookupTrace ----
(* Validates what the real FileReader / ZipReader / borrowers returned for materialised scenarios. *)
EXTENDS ReaderLookup, Json, IOUtils, TLCExt
VARIABLE tid
Traces == JsonDeserialize(IOEnv.TRACE_FILE)
T == Traces[tid]
SetOf(s) == {s[i] : i \in DOMAIN s}
ScOf(t) == [req |-> t.sc.req, opts |-> t.sc.opts, exts |-> t.sc.exts, index |-> t.sc.index, recursive |-> t.sc.recursive,
            entries |-> SetOf(t.sc.entries)]
TInit == tid \in 1..Len(Traces) /\ sc = ScOf(T) /\ res = [kind |-> T.res.kind, name |-> T.res.name, cid |-> T.res.cid, mt |-> T.res.mt]
TNext == FALSE /\ UNCHANGED <<vars, tid>>
Failed == {n \in {"RightFile", "NotFoundExactly", "NeverUnrelated", "OnlyPackageErrors"} :
             CASE n = "RightFile" -> ~RightFile(sc, res)
               [] n = "NotFoundExactly" -> ~NotFoundExactly(sc, res)
               [] n = "NeverUnrelated" -> ~NeverUnrelated(sc, res)
               [] n = "OnlyPackageErrors" -> ~OnlyPackageErrors(sc, res)}
Report == PrintT(ToJson([id |-> T.id, failed |-> Failed, nmatches |-> Cardinality(Matches(sc))]))
====
