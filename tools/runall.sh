#!/bin/bash
# runall.sh [tier] : every check once, in /verif against /repo, evidence rewritten; prints one line per property
tier=${1:-quick}
cd "$(dirname "$0")/.."
for p in C01 C02 C03 C04 C05 C06 C07 C08 C09 C10 C11 C12 C13 C14 C15 C16 C17 C18 C19 C20; do
  s=$(date +%s); ./check $p --tier $tier > /tmp/runall-$p.log 2>&1; rc=$?
  echo "$p exit=$rc wall=$(( $(date +%s)-s ))s $(grep -c '^KNOWN-FINDING' /tmp/runall-$p.log) known-finding lines; $(tail -1 /tmp/runall-$p.log | cut -c1-160)"
done
