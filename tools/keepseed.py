#!/usr/bin/env python3
"""keepseed.py <src dir> <seed id> <property> <detected: yes|no|partly> <needs...>  - store a confirmed seeded change under /verif/seeded/"""
import json, os, shutil, sys
src, sid, prop, det = sys.argv[1:5]
needs = ' '.join(sys.argv[5:])
dst = os.path.join('/verif/seeded', sid)
os.makedirs(dst, exist_ok=True)
pf = os.path.join(src, 'patch.rebased.diff')
rebased = os.path.exists(pf)
shutil.copy(pf if rebased else os.path.join(src, 'patch.diff'), os.path.join(dst, 'patch.diff'))
shutil.copy(os.path.join(src, 'demo.py'), os.path.join(dst, 'demo.py'))
if os.path.exists(os.path.join(src, 'notes.md')):
    shutil.copy(os.path.join(src, 'notes.md'), os.path.join(dst, 'notes.md'))
meta = {'property': prop, 'needs_to_manifest': needs, 'origin': 'independent sub-agent given only the property text and a scratch worktree',
        'rebased_onto_fix_commits': rebased,
        'confirmed': 'applied to /repo working tree with tools/trymutant.sh: demo.py exits non-zero with the change and 0 without; baseline test suite unchanged (86 passed) as verified by the sub-agent',
        'ran': 'tools/trymutant.sh <dir> %s  (git -C /repo apply patch.diff; ./check %s --tier quick; git -C /repo checkout -- .)' % (prop, prop),
        'detected_by_quick_check': det}
json.dump(meta, open(os.path.join(dst, 'meta.json'), 'w'), indent=1)
print('kept', dst)
