#!/usr/bin/env python3
"""Re-derive the commit ids quoted in known_findings.json from the subjects of the fix: commits in /repo
(ids change when the local fix commits are rebased); also lists fix commits no finding refers to."""
import json, re, subprocess
p = '/verif/known_findings.json'
j = json.load(open(p))
log = [l.split(' ', 1) for l in subprocess.check_output(['git', '-C', '/repo', 'log', '--format=%h %s'], text=True).splitlines()]
fixes = [(h, s) for h, s in log if s.startswith('fix:')]
used = set()
for f in j['findings']:
    if f.get('status') != 'fixed':
        continue
    subj = f.get('commit_subject')
    if not subj:
        # first time: find by old hash or by words
        old = f.get('commit')
        cand = [s for h, s in fixes if h == old]
        if not cand:
            print('UNRESOLVED', f['id'], old)
            continue
        subj = cand[0]
        f['commit_subject'] = subj
    hs = [h for h, s in fixes if s == subj]
    if not hs:
        print('MISSING COMMIT for', f['id'], subj)
        continue
    old = f['commit']
    f['commit'] = hs[0]
    f['record'] = re.sub(r'\b%s\b' % re.escape(old), hs[0], f['record']) if old != hs[0] else f['record']
    used.add(subj)
json.dump(j, open(p, 'w'), indent=1)
for h, s in fixes:
    if s not in used:
        print('fix commit without finding:', h, s)
