#!/venv/bin/python
"""Demonstrates that the specifications are bound to the code: recorded traces are accepted as they are and
REJECTED when one recorded field is corrupted or one observation point is removed.  (cwd = /verif)"""
import copy, json, os, sys
VERIF = os.path.dirname(os.path.dirname(os.path.abspath(__file__)))
sys.path.insert(0, VERIF)
sys.path.insert(0, os.environ.get('VERIF_REPO', '/repo'))
os.environ.setdefault('PYTHONHASHSEED', '0')
from harness import tlc, doubles
from checks import mibcompile, clitools, realworld as rw

ok = True


def expect(label, cond, detail=''):
    global ok
    print('%-78s %s %s' % (label, 'ok' if cond else 'UNEXPECTED', detail))
    ok = ok and cond


try:
    # --- MibCompile, scripted doubles
    res = mibcompile.model_check('q5', ['NoRaise'], export='ExportSome')
    sc = [s for s in res.exports if any(e['ev'] == 'put' for e in s['log']) and any(e['ev'] == 'bor' for e in s['log'])][0]
    tr = doubles.run_scenario(sc, 1, 1, 1)
    good = mibcompile.to_trace('good', tr)
    bad1 = copy.deepcopy(good); bad1['id'] = 'drop-put'
    bad1['log'] = [e for e in bad1['log'] if e['ev'] != 'put']                       # observation point removed
    bad2 = copy.deepcopy(good); bad2['id'] = 'flip-status'
    bad2['proc'][0]['st'] = 'untouched' if bad2['proc'][0]['st'] != 'untouched' else 'compiled'   # one field corrupted
    bad3 = copy.deepcopy(good); bad3['id'] = 'swap-events'
    bad3['log'][0], bad3['log'][1] = bad3['log'][1], bad3['log'][0]
    v, _ = mibcompile.validate([good, bad1, bad2, bad3], 1, 1, 1, workers=1)
    expect('MibCompileTrace accepts the recorded trace', v['good']['refine'] == 'ok' and not v['good']['failed'])
    expect('MibCompileTrace rejects the trace without its put events', v['drop-put']['refine'] != 'ok' or v['drop-put']['failed'], str(v['drop-put']['failed'])[:80])
    expect('MibCompileTrace rejects a flipped status', v['flip-status']['refine'] != 'ok' or v['flip-status']['failed'], str(v['flip-status']['failed'])[:80])
    expect('MibCompileTrace rejects two swapped events', v['swap-events']['refine'] != 'ok' or v['swap-events']['failed'], 'at=%s' % v['swap-events']['at'])
    # --- MibDump, real script
    w = {'usage': 'none', 'req': ['AA-MIB'], 'srcA': 'ok', 'src2A': 'missing', 'srcB': 'broken', 'alias': False, 'sub': False, 'dstKind': 'dir', 'reqForm': 'name', 'stubB': False, 'imp': 'AB', 'spell': 'exact',
         'dstA': 'stale', 'dstB': 'absent', 'borA': False, 'borB': True, 'base': True, 'noDeps': False, 'rebuild': False,
         'ignoreErrors': True, 'noWrites': False, 'dryRun': False, 'texts': 'no', 'buildIndex': True, 'quiet': False}
    root = tlc.mkscratch('bind-')
    obs, extra = clitools.observe_dump(w, 'json', root)
    t0 = {'id': 'good', 'w': w, 'obs': obs}
    t1 = copy.deepcopy(t0); t1['id'] = 'exit0'; t1['obs']['exit'] = 0
    t2 = copy.deepcopy(t0); t2['id'] = 'report-moved'
    src = [c for c in t2['obs']['report'] if t2['obs']['report'][c]][0]
    dst = [c for c in t2['obs']['report'] if c != src][0]
    t2['obs']['report'][dst] = t2['obs']['report'][dst] + [t2['obs']['report'][src].pop()]
    t3 = copy.deepcopy(t0); t3['id'] = 'file-hidden'; t3['obs']['written'] = t3['obs']['written'][1:]
    path = os.path.join(root, 'tr.json')
    json.dump([t0, t1, t2, t3], open(path, 'w'))
    cfg = clitools.DUMP_CFG.format(nsea=2, fmt='json', dom='Dom_usage', keep='KeepAll') + 'INIT TInit\nNEXT TNext\nINVARIANT Report\n'
    vres = tlc.run('MibDumpTrace', 't.cfg', files={'t.cfg': cfg}, env={'TRACE_FILE': path}, workers=1)
    v = {x['id']: x for x in vres.exports}
    expect('MibDumpTrace accepts the observed run (exit %s)' % obs['exit'], not v['good']['failed'] and v['good']['drift'] == 'ok')
    expect('MibDumpTrace rejects exit status 0 for a run with failures', v['exit0']['failed'] or v['exit0']['drift'] != 'ok', str(v['exit0']['failed']))
    expect('MibDumpTrace rejects a module reported under another category', v['report-moved']['failed'], str(v['report-moved']['failed']))
    expect('MibDumpTrace rejects a written file that is not observed', v['file-hidden']['failed'] or v['file-hidden']['drift'] != 'ok', str(v['file-hidden']['failed']))
    # --- real components behind proxies: remove one proxy
    root2 = tlc.mkscratch('bind2-')
    dirs = clitools.build_world(w, 'json', root2, times=rw.RW_TIMES)
    from harness import realworld
    keep = realworld.SearcherProxy.fileExists
    opts = {'noDeps': False, 'rebuild': False, 'ignoreErrors': True, 'genTexts': False, 'writeMibs': True, 'dryRun': False}
    trg = realworld.run_world(dirs, w['req'], opts)
    realworld.SearcherProxy.fileExists = lambda self, mibname, mtime, rebuild=False: self.real.fileExists(mibname, mtime, rebuild=rebuild)
    root3 = tlc.mkscratch('bind3-')
    dirs3 = clitools.build_world(w, 'json', root3, times=rw.RW_TIMES)
    trb = realworld.run_world(dirs3, w['req'], opts)
    realworld.SearcherProxy.fileExists = keep
    g, b = mibcompile.to_trace('good', trg), mibcompile.to_trace('no-searcher-events', trb)
    v, _ = mibcompile.validate([g, b], 2, 2, 1, workers=1)
    expect('real components: recorded trace accepted', v['good']['refine'] == 'ok' and not v['good']['failed'])
    expect('real components: trace recorded without the searcher proxy is rejected', v['no-searcher-events']['refine'] != 'ok' or v['no-searcher-events']['failed'],
           'at=%s expected=%s' % (v['no-searcher-events']['at'], v['no-searcher-events']['expected']))
finally:
    tlc.cleanup()
sys.exit(0 if ok else 1)
