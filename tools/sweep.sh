#!/bin/bash
# sweep.sh <tier> <seeds...> -- <props...> : run checks with several seeds, print alarms only
tier=$1; shift
seeds=(); while [ "$1" != "--" ]; do seeds+=("$1"); shift; done; shift
for p in "$@"; do for s in "${seeds[@]}"; do
  echo "== $p tier=$tier seed=$s"; VERIF_SEED=$s ./check $p --tier $tier 2>&1 | grep "^VIOLATION\|^MACHINERY\|^C[0-9][0-9] \|Traceback\|Error" | cut -c1-500 | tail -8
done; done
