#!/venv/bin/python
"""setup_cmd: offline sanity of the tool chain - every specs/*.tla must parse (SANY), pysmi must import from /repo."""
import os, sys
sys.path.insert(0, os.path.dirname(os.path.dirname(os.path.abspath(__file__))))
from harness import tlc
bad = [(f, msg) for f, ok, msg in tlc.sany_all() if not ok]
# modules written for Apalache are type-checked by Apalache itself
import re, subprocess, shutil
for f in sorted(os.listdir(tlc.SPECS)):
    if f.endswith('.tla') and re.search(r'^EXTENDS.*\bApalache\b', open(os.path.join(tlc.SPECS, f)).read(), re.M):
        d = tlc.mkscratch('apa-')
        shutil.copy(os.path.join(tlc.SPECS, f), d)
        p = subprocess.run(['apalache-mc', 'typecheck', '--out-dir=' + os.path.join(d, 'out'), f], cwd=d, stdout=subprocess.PIPE,
                           stderr=subprocess.STDOUT, universal_newlines=True)
        if 'EXITCODE: OK' not in p.stdout:
            bad.append((f, p.stdout[-1500:]))
tlc.cleanup()
for f, msg in bad:
    print('SANY failed for %s:\n%s' % (f, msg))
sys.path.insert(0, '/repo')
import pysmi
print('pysmi from', pysmi.__file__, '; specs parsed;', 'FAILED' if bad else 'ok')
sys.exit(1 if bad else 0)
