#!/venv/bin/python
"""setup_cmd: offline sanity of the tool chain - every specs/*.tla must parse (SANY), pysmi must import from /repo."""
import os, sys
sys.path.insert(0, os.path.dirname(os.path.dirname(os.path.abspath(__file__))))
from harness import tlc
bad = [(f, msg) for f, ok, msg in tlc.sany_all() if not ok]
tlc.cleanup()
for f, msg in bad:
    print('SANY failed for %s:\n%s' % (f, msg))
sys.path.insert(0, '/repo')
import pysmi
print('pysmi from', pysmi.__file__, '; specs parsed;', 'FAILED' if bad else 'ok')
sys.exit(1 if bad else 0)
