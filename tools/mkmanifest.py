#!/usr/bin/env python3
"""Regenerates /verif/MANIFEST.json from the table below (one source of truth for the claims)."""
import json, os
VERIF = os.path.dirname(os.path.dirname(os.path.abspath(__file__)))
ids = [json.loads(l)['id'] for l in open(os.path.join(VERIF, 'properties.jsonl'))]

MC_NOTE = ('Trusted: TLC 1.8 + CommunityModules (Json, IOUtils); the scripted doubles and the projection of the '
           'result map in harness/doubles.py; pass 1 (symbol table) is a double in this mode. Scope: exhaustive over '
           'the slices named in checks/mibcompile.py (2-3 names, <=2 sources/searchers/borrowers, every answer of every '
           'component, all six options chosen lazily); nothing is claimed beyond those bounds.')

CHECKS = {
 'C07': dict(engine='MibCompile', design='6 (C07)', technique='TLA+ spec MibCompile.tla model-checked with TLC; every exported behaviour replayed through the real MibCompiler with scripted doubles; recorded traces validated by TLC (MibCompileTrace: refinement + property monitor)',
             text='TLC checks NoRaise/OneOfSix/Accounted/PutAtMostOnce/StatusMatchesEffect/TextIsGenerated/FailedCarriesError/OptionsPassed on every reachable state of the compile() state machine for all import graphs x component outcomes x options inside the slices; each terminal behaviour is replayed in the real code and its call trace is validated against the same spec and formulas.',
             note=MC_NOTE),
 'C08': dict(engine='MibCompile', design='6 (C08)', technique='TLA+ spec MibCompile.tla + TLC; replay through real MibCompiler; TLC trace validation',
             text='Closure (Accounted), FetchAtMostOnce, SourceOrder, CompiledFromAccepted as TLC invariants over all import graphs (cycles, self imports, alias files, several modules per file) x source outcomes; behaviours replayed and trace-validated.',
             note=MC_NOTE + ' Termination is checked as absence of behaviours longer than the bounded state graph (TLC completes) rather than as a temporal property in the quick tier.'),
 'C09': dict(engine='MibCompile', design='6 (C09)', technique='TLA+ spec MibCompile.tla + TLC; replay through real MibCompiler; TLC trace validation',
             text='AllOrNothing (plus closure and no-raise) for every placement of failures with ignoreErrors on/off, with and without borrowers.', note=MC_NOTE),
 'C10': dict(engine='MibCompile', design='6 (C10 first half)', technique='TLA+ spec MibCompile.tla + TLC; replay through real MibCompiler; TLC trace validation',
             text='FreshMeansUntouched, SearcherOrder, SearcherSeesSourceTime, NoDepsOnlyRequested, GeneratedWhenNeeded, OptionsPassed over all searcher answers (fresh/absent/error/silent) x rebuild x noDeps. Second half: Searcher.tla enumerates every directory configuration (entries absent/dir/file with times src-1/src/src+1, .pyc header variants, rebuild, stub lists); each is materialised on disk (source time stamp obtained through the real FileReader, sub-second times) and the answer of the real AnyFileSearcher/PyFileSearcher/PyPackageSearcher/StubSearcher is validated by TLC (SearcherTrace) against UpToDateExactly.', note=MC_NOTE),
 'C19': dict(engine='MibCompile', design='6 (C19 first half)', technique='TLA+ spec MibCompile.tla + TLC; replay through real MibCompiler with real AnyFileBorrower around reader doubles; TLC trace validation',
             text='BorrowOnlyFailures, FlavourMatch, BorrowOrder, Verbatim, NeverReplaceCompiled, RequestedStayEligible over all borrower lists (flavours, ok/nf/err) x failure placements x noDeps/genTexts/ignoreErrors. Second half: PyFileBorrower / AnyFileBorrower over real FileReader/ZipReader sources for every file-extension variant (ReaderLookup.tla scenarios with the borrower extension families).', note=MC_NOTE),

 'C18': dict(engine='OidIndex', design='6 (C18)', technique='TLA+ spec OidIndex.tla model-checked with TLC; every exported build history replayed through the real genIndex()/buildIndex(); per-call index snapshots validated by TLC (OidIndexTrace: refinement + property monitor)',
             text='Listed, Cover (component-wise prefix), OnlyDefines, Monotone (action property over consecutive builds), Idempotent as TLC invariants for all histories of index builds over an OID universe whose arcs share decimal digits; the real index after every call is compared with MergeBatch and the formulas are evaluated on it.',
             note='Trusted: TLC, Json module, the projection of the index JSON (harness). Scope: 2-3 modules, 4-7 OIDs, histories of <=3 calls, batches of <=2 modules; identity/enterprise/compliance variants from a fixed set. Idempotence is read as: nothing the index provides changes (sections and cover relation), see DESIGN.md.'),

 'C13': dict(engine='AtomicWrite', design='6 (C13)', technique='TLA+ spec AtomicWrite.tla (system-call steps, faults, 1-2 interleaved writers) model-checked with TLC; every exported schedule driven through the real FileWriter/PyFileWriter by os/tempfile/py_compile proxies and a deterministic thread scheduler; call+filesystem traces validated by TLC (AtomicWriteTrace)',
             text='NeverPartial in every state (= every crash point), NoTempLeft, RaisedIsWriterError, RaisedKeeps, DryRunInert as invariants and ReturnedMeansStored as action property, for both writers x every call site x {error, short write} x fresh/existing destination x one or two concurrent writers; the real putData() is executed along each schedule and the snapshot after every call is checked against the spec step and the formulas.',
             note='Trusted: TLC; the proxies/scheduler in harness/faultfs.py and the classification of file contents (old / complete new / partial). Faults are results of Python-level calls; fsync/power loss not modelled. Quick tier samples 1500 schedules per two-writer slice (seeded), single-writer slices are exhaustive.'),

 'C14': dict(engine='ReaderLookup', design='6 (C14)', technique='TLA+ spec ReaderLookup.tla (variants computed on character sequences from the documented rule) explored with TLC; every scenario materialised as a directory tree and as a (nested) ZIP and asked of the real FileReader/ZipReader; results validated by TLC (ReaderLookupTrace); UrlDispatch.tla decision table against getReadersFromUrls()',
             text='RightFile (name is a variant, content and time stamp are that entry\'s), NotFoundExactly, NeverUnrelated, OnlyPackageErrors for request names (suffix present / absent / -MIB in the middle / mixed case) x option subsets x .index mapping x recursive flag x <=2 entries from variants and near misses at three nesting levels (sub-directories; folders and nested archives in ZIPs); all URL shapes (scheme x extension).',
             note='Trusted: TLC, zipfile/os for building the sources, the identification of returned text with an entry. Scope: <=2 entries per source from a 20-name universe per request; quick tier samples 2500 scenarios per slice. HTTP/FTP readers are only constructed. Empty archive members are not generated (ZipReader cannot tell them from read errors).'),

 'C12': dict(engine='History', design='6 (C12)', technique='TLA+ spec History.tla (reset discipline of one instance fed a history) enumerates the histories with TLC; each is replayed on a shared real instance and element-wise compared with fresh instances; hash-seed runs in sub-processes; recorded traces validated by TLC (HistoryTrace: Stateless, SeedFree)',
             text='Stateless for all histories of length <=2 (quick; <=3 thorough) over 14 valid and invalid MIB texts for each instance kind (parser in two dialects, symbol-table generator, JSON and pysnmp generators, MibCompiler, the same syntax tree generated twice); SeedFree for every input and backend over hash seeds {0,1,2,3,7} (quick) / 0..31 (thorough).',
             note='Trusted: TLC; the fresh-instance result is the oracle (differential), the TLA+ model contributes the history enumeration, the reset discipline and the deviation names. Generated comments (time stamp, host, user) are excluded. Other interpreters than the installed CPython are not available.'),

 'C01': dict(engine='OidTree', design='6 (C01)', technique='TLA+ spec OidTree.tla grows module sets declaration by declaration (TLC explores every shape, parent choice, spelling and insertion position) and defines the ground-truth OID GT; scenarios rendered to MIB text, compiled by the real MibCompiler with both code generators, pysnmp modules executed with the real MibBuilder; observations validated by TLC (OidTreeTrace)',
             text='Compiles, JsonOid, PyOid, SummaryOids/Identity/Enterprise/Compliance for forests of <=3-4 declarations over 2-3 modules: every parent choice (numeric roots in three spellings, imported base node, earlier node of any module => import chains and cycles), sub-identifier spellings number / name(number), all OID-carrying kinds incl. TRAP-TYPE and conceptual tables, every declaration order; identifiers with hyphens, mixed case, Python keywords, module-scoped duplicates.',
             note='Trusted: TLC; the renderer harness/render.py and the projection of JSON / MibBuilder symbols; SMI base modules are harness fixtures. Scope: bounded forests, quick tier replays 2500 scenarios per slice through JSON and 250 through pysnmp (seeded sample of the exported state space). Module sets with import cycles are not loaded into pysnmp (platform limit).'),

 'C03': dict(engine='Decls', design='6 (C03)', technique='TLA+ spec Decls.tla grows a module as a list of declarations of every clause kind with attributes (TLC explores kinds x status x access x units x revisions x insertion positions) and defines ExpectedDoc; rendered modules compiled by the real MibCompiler + JsonCodeGen; the parsed JSON documents validated by TLC (DeclsTrace)',
             text='WellFormed (parses, no duplicate keys in the raw text), ExactlyDeclared (one entry per declared symbol plus imports/meta), RecordMatches (class, node type, status, max-access, units, revision dates), NoCrossWiring, for all declaration lists of length <=2 over all fifteen declaration shapes with every status/access value and of length 3 with reduced attributes, in every order; names with hyphens, Python keywords, mixed case; with and without texts.',
             note='Trusted: TLC; renderer and JSON projection; the harness table mapping revision ids to (spelling, canonical date). Scope: <=3 declarations per module; quick tier replays a seeded sample of 3000 scenarios per slice. SEQUENCE row types, CHOICE and MACRO definitions are auxiliary syntax, not symbols (DESIGN reading).'),

 'C06': dict(engine='Refs', design='6 (C06)', technique='TLA+ spec Refs.tla enumerates (TLC) tables with INDEX lists / IMPLIED / foreign indices / augmenting rows in every text order, OBJECTS-NOTIFICATIONS-VARIABLES lists, and compliance statements with every GROUP/OBJECT clause order; rendered module pairs compiled by the real MibCompiler with both generators, pysnmp modules executed by the real MibBuilder; observations validated by TLC (RefsTrace)',
             text='NodeType, IndexFaithful (order, IMPLIED flag, defining module), AugmentsTarget, ListsFaithful, ComplianceFaithful evaluated on the JSON document and on the executed pysnmp objects (getIndexNames, getObjects, registered augmentions) for all 2579 scenarios of the model.',
             note='Trusted: TLC; renderer; the name table mapping observed (module, object) pairs back to scenario references. Scope: 1-3 columns, lists of length <=3, <=2 MODULE parts with <=3 compliance items; one fixed companion module. The pysnmp side is observed for a seeded sample of 400 scenarios in the quick tier.'),

 'C05': dict(engine='Types', design='6 (C05)', technique='TLA+ spec Types.tla enumerates (TLC) type chains, constraint alternatives over symbolic boundary values in every literal form, enumerations/BITS, and the DEFVAL notation x base-class table, and defines BaseOf/ExpDefval; rendered module pairs compiled by the real MibCompiler with both generators, pysnmp classes read through the real MibBuilder; observations validated by TLC (TypesTrace)',
             text='Compiles, SyntaxParent, ChainLinks, ChainDefval, SyntaxExact (every range/SIZE alternative in order, denoting the written integers; decimal/hex/binary spellings of one value agree), NamedExact, DefvalFaithful for chains of 0-3 derived types (assignment / TEXTUAL-CONVENTION, refined, imported, any declaration order, namesake decoys), boundary values of all numeric token classes, every DEFVAL notation against every base class at chain depth 0-2.',
             note='Trusted: TLC; renderer; harness tables resolving symbolic value ids and default denotations. Scope: quick tier replays all defval/named scenarios and seeded samples (1500 each) of the chain and range families through JSON, 350 of them through pysnmp. 64-bit arithmetic is never done in TLC (symbolic ids). Open findings on the pysnmp side are listed in known_findings.json.'),

 'C15': dict(engine='Texts', design='6 (C15)', technique='TLA+ spec Texts.tla defines texts as sequences of character classes with the emission rule, the whitespace normalisation and equality up to whitespace; TLC enumerates clause x genTexts x filter x text; rendered modules compiled by the real MibCompiler with both generators (pysnmp module executed by the real MibBuilder); observed strings tokenised back into classes and validated by TLC (TextsTrace)',
             text='OnlyWhenRequested, JsonExact (exact with the identity filter, whitespace-normalised with the default one), PysnmpEqual (equal up to whitespace after executing the module), AlwaysCompilable, for every text-bearing clause (DESCRIPTION, REFERENCE, ORGANIZATION, CONTACT-INFO, UNITS, DISPLAY-HINT, PRODUCT-RELEASE, revision description), genTexts on/off, both filters, all texts of <=2 (quick) / <=3 (thorough) classes out of 16 (words, blanks, TAB, LF, CRLF, CR, backslash, apostrophes, non-ASCII, 90-character word, braces, percent, hash, empty).',
             note='Trusted: TLC; the class representatives and the tokeniser in checks/texts.py. Scope: texts of at most 3 classes; quick tier replays a seeded sample of 3500 scenarios through JSON and 400 through pysnmp. A line break inserted by word wrapping inside a word longer than the line counts as whitespace (DESIGN reading). Revision descriptions are not part of pysnmp output.'),

 'C16': dict(engine='V1V2', design='6 (C16)', technique='TLA+ spec V1V2.tla enumerates (TLC) abstract SMIv1 modules and defines the transliteration rules; each scenario is rendered as SMIv1 and as SMIv2 text, both compiled by the real MibCompiler with both generators; the two projections and one row per entry of the import rewrite domain are validated by TLC (V1V2Trace); the oracle for new import homes is the export list of the SMIv2 modules shipped with pysnmp',
             text='BothCompile, SameObjects (symbols, OIDs, classes, node types, references; status through the v1->v2 map), TypeMap (pysnmp class of every SMIv1 type), AccessIsMaxAccess, TrapIsNotification (enterprise.0.n incl. enterprises ending in 0), ImportsInPair, ImportsRewritten for all 248 rewrite rows (127 verifiable against pysnmp).',
             note='Trusted: TLC; renderer; the pysnmp export lists as reference for SMIv2 homes (rows whose new module pysnmp does not ship are counted, not judged). Scope: 1-2 objects plus optional table and trap per module; quick tier replays a seeded sample of 700 pairs (160 through pysnmp). INDEX given as a bare type has no SMIv2 counterpart and is a known finding.'),
}
PENDING = 'check under construction in this round; will be claimed when its TLA+ spec, replay and trace validation exist'

m = {
 'version': 1,
 'setup_cmd': 'cd /verif && /venv/bin/python tools/setup.py',
 'hooks': {'guard': 'PYSMI_VERIF', 'enable': 'PYSMI_VERIF=1 in the environment of the harness processes; pysmi is imported from /repo (editable install), nothing is built',
           'baseline_off_cmd': 'cd /repo && env -u PYSMI_VERIF /venv/bin/python -m pytest -ra -q -p no:cacheprovider --timeout=900 --continue-on-collection-errors',
           'source_commits': [], 'add_only': True},
 'engines': [{'name': 'MibCompile', 'path': 'specs/MibCompile.tla', 'serves_properties': ['C07', 'C08', 'C09', 'C10', 'C19'],
              'kind_free_text': 'TLA+ state machine of MibCompiler.compile() with lazy environment; MibCompileProps.tla formulas; MibCompileTrace.tla batch trace validation'},
             {'name': 'AtomicWrite', 'path': 'specs/AtomicWrite.tla', 'serves_properties': ['C13'], 'kind_free_text': 'TLA+ model of putData() as system-call steps with fault injection and two interleaved writers; AtomicWriteTrace.tla'},
             {'name': 'Searcher', 'path': 'specs/Searcher.tla', 'serves_properties': ['C10'], 'kind_free_text': 'TLA+ decision model of the file searchers over directory configurations; SearcherTrace.tla'},
             {'name': 'ReaderLookup', 'path': 'specs/ReaderLookup.tla', 'serves_properties': ['C14', 'C19'], 'kind_free_text': 'TLA+ model of which file a local/ZIP source may return for a name; ReaderLookupTrace.tla; UrlDispatch.tla'},
             {'name': 'History', 'path': 'specs/History.tla', 'serves_properties': ['C12'], 'kind_free_text': 'TLA+ model of the reset discipline of parser / generator / compiler instances; HistoryTrace.tla'},
             {'name': 'OidTree', 'path': 'specs/OidTree.tla', 'serves_properties': ['C01'], 'kind_free_text': 'TLA+ builder of OID forests over module sets with ground-truth OID operator; OidTreeTrace.tla'},
             {'name': 'Decls', 'path': 'specs/Decls.tla', 'serves_properties': ['C03'], 'kind_free_text': 'TLA+ builder of declaration lists with ExpectedDoc; DeclsTrace.tla'},
             {'name': 'Refs', 'path': 'specs/Refs.tla', 'serves_properties': ['C06'], 'kind_free_text': 'TLA+ enumeration of structural references (tables, lists, compliance) with expected targets; RefsTrace.tla'},
             {'name': 'Types', 'path': 'specs/Types.tla', 'serves_properties': ['C05'], 'kind_free_text': 'TLA+ enumeration of syntaxes, constraints and defaults with BaseOf / ExpDefval ground truth; TypesTrace.tla'},
             {'name': 'Texts', 'path': 'specs/Texts.tla', 'serves_properties': ['C15'], 'kind_free_text': 'TLA+ model of texts as character-class sequences with emission rule and whitespace normalisation; TextsTrace.tla'},
             {'name': 'V1V2', 'path': 'specs/V1V2.tla', 'serves_properties': ['C16'], 'kind_free_text': 'TLA+ model of SMIv1 modules and their SMIv2 transliteration; V1V2Trace.tla'},
             {'name': 'OidIndex', 'path': 'specs/OidIndex.tla', 'serves_properties': ['C18'], 'kind_free_text': 'TLA+ model of the persistent OID->module index and its merge/compaction; OidIndexTrace.tla'}],
 'checks': [], 'not_applicable': [],
 'notes': 'All checks: cwd=/verif, ./check <id> --tier quick|thorough; exit 0 pass, 1 violation (VIOLATION line), 2 machinery failure. known_findings.json lists open findings and fixed: records.',
}
for i in ids:
    if i in CHECKS:
        c = CHECKS[i]
        m['checks'].append({'property_id': i, 'quick_cmd': './check %s --tier quick' % i, 'thorough_cmd': './check %s --tier thorough' % i,
                            'evidence_file': 'evidence/%s.json' % i, 'replay_cmd_template': './check %s --replay {path}' % i,
                            'engine': c['engine'], 'technique': c['technique'],
                            'level_claimed': {'category': c.get('level', 'model_checking'), 'text': c['text'], 'design_ref': 'DESIGN.md section ' + c['design']},
                            'level_note': c['note']})
    else:
        m['not_applicable'].append({'property_id': i, 'reason': PENDING})
json.dump(m, open(os.path.join(VERIF, 'MANIFEST.json'), 'w'), indent=1)
print('checks:', [c['property_id'] for c in m['checks']])
