#!/usr/bin/env python3
"""Regenerates the generated regions of DESIGN.md (between <!-- BEGIN x --> / <!-- END x -->):
   SEEDTABLE from seeded/*/meta.json, COSTTABLE from evidence/*.json."""
import glob, json, os, re
V = os.path.dirname(os.path.dirname(os.path.abspath(__file__)))


def seedtable():
    rows = ['| seed | property | what the change needs in order to show | caught by (quick tier unless noted) | formulas that fire |', '|---|---|---|---|---|']
    for d in sorted(glob.glob(os.path.join(V, 'seeded', '*'))):
        m = json.load(open(os.path.join(d, 'meta.json')))
        caught = m.get('caught_by') or ('check %s' % m['property'] if m.get('detected_by_quick_check') == 'yes' else m.get('detected_by_quick_check', '?'))
        rows.append('| %s | %s | %s | %s | %s |' % (os.path.basename(d), m['property'], m['needs_to_manifest'].replace('|', '/'), caught, ', '.join(m.get('formulas', [])) or '-'))
    return '\n'.join(rows)


def costtable():
    rows = ['| check | TLC distinct states | scenarios replayed in the real code | traces validated by TLC | distinct non-trivial | wall (s) | known findings seen |', '|---|---|---|---|---|---|---|']
    for f in sorted(glob.glob(os.path.join(V, 'evidence', '*.json'))):
        e = json.load(open(f)); c = e['coverage']
        rows.append('| %s (%s, seed %s) | %d | %d | %d | %d | %.0f | %d |' % (e['property_id'], e['tier'], e['seed'], c['states'], c['evaluations'],
                    c['traces_validated_against_impl'], c['distinct_nontrivial'], e['wall_s'], sum(c['known_findings_seen'].values())))
    return '\n'.join(rows)


p = os.path.join(V, 'DESIGN.md')
s = open(p).read()
for name, fn in (('SEEDTABLE', seedtable), ('COSTTABLE', costtable)):
    s = re.sub(r'<!-- BEGIN %s -->.*?<!-- END %s -->' % (name, name), lambda m: '<!-- BEGIN %s -->\n%s\n<!-- END %s -->' % (name, fn(), name), s, flags=re.S)
open(p, 'w').write(s)
print('DESIGN.md tables regenerated')
