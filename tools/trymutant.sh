#!/bin/bash
# usage: trymutant.sh <dir with patch.diff (or patch.rebased.diff), demo.py> <property> [more properties...]
# Applies the seeded change to a SCRATCH WORKTREE of /repo (never to /repo itself), runs the demo and the checks
# against that worktree (VERIF_REPO), removes the worktree.
d=$1; shift
wt=$(mktemp -d /tmp/wt-mut-XXXXXX); rmdir $wt
git -C /repo worktree add -q $wt HEAD || exit 2
trap 'git -C /repo worktree remove --force '$wt' 2>/dev/null; git -C /repo worktree prune' EXIT
pf="$d/patch.diff"; [ -f "$d/patch.rebased.diff" ] && pf="$d/patch.rebased.diff"
echo "--- demo without change (expect 0):"
(cd $wt && PYTHONPATH=$wt timeout 300 /venv/bin/python "$d/demo.py" >/dev/null 2>&1; echo "demo exit=$?")
if ! git -C $wt apply --check "$pf" 2>/dev/null; then echo "PATCH-DOES-NOT-APPLY $pf"; exit 3; fi
git -C $wt apply "$pf"
echo "--- demo with change (expect failure):"
(cd $wt && PYTHONPATH=$wt timeout 300 /venv/bin/python "$d/demo.py" >/dev/null 2>&1; echo "demo exit=$?")
for p in "$@"; do
  echo "--- check $p"
  full=$(mktemp /tmp/mutant-full-XXXXXX)
  (cd /verif && VERIF_REPO=$wt VERIF_OUT=/tmp/mutant-out timeout 3000 ./check $p ${TIER:+--tier $TIER} ${SLICES:+--slices $SLICES} > $full 2>&1; echo "check exit=$?" >> $full)
  grep "^VIOLATION\|^MACHINERY\|^C[0-9][0-9] \(quick\|thorough\)\|^check exit" $full | cut -c1-420 | tail -12
  rm -f $full
done
