#!/bin/bash
# usage: trymutant.sh <dir with patch.diff, demo.py> <property> [more properties...]
# Applies the seeded change to /repo's working tree, runs the demo and the quick checks, reverts.
d=$1; shift
cd /repo || exit 2
if [ -n "$(git status --porcelain --untracked-files=no)" ]; then echo "repo dirty"; exit 2; fi
pf="$d/patch.diff"; [ -f "$d/patch.rebased.diff" ] && pf="$d/patch.rebased.diff"
if ! git apply --check "$pf" 2>/dev/null; then echo "PATCH-DOES-NOT-APPLY $pf"; exit 3; fi
git apply "$pf"
trap 'cd /repo; git checkout -q -- . ; git clean -fdq pysmi scripts 2>/dev/null' EXIT
echo "--- demo with change (expect failure):"
(cd /repo && PYTHONPATH=/repo timeout 300 /venv/bin/python "$d/demo.py" >/dev/null 2>&1; echo "demo exit=$?")
for p in "$@"; do
  echo "--- check $p"
  (cd /verif && timeout 3000 ./check $p ${TIER:+--tier $TIER} ${SLICES:+--slices $SLICES} 2>&1 | grep -v "^DRIFT" | cut -c1-500 | tail -6; echo "check exit=${PIPESTATUS[0]}")
done
cd /repo; git checkout -q -- .
echo "--- demo without change (expect 0):"
(cd /repo && PYTHONPATH=/repo timeout 300 /venv/bin/python "$d/demo.py" >/dev/null 2>&1; echo "demo exit=$?")
